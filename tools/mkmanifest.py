#!/usr/bin/env python3
"""Regenerate /verif/MANIFEST.json from the table below (keeps it schema-valid)."""
import json, os
HERE = os.path.dirname(os.path.dirname(os.path.abspath(__file__)))

TB = ("trusted: rustc nightly 1.97 (type check, MIR, const eval, trait resolution), the espada-facts driver, "
      "the python rule library; std/regex/fxhash behave as documented")

CHECKS = {
    "C01": dict(
        cat="other",
        text="Static and exhaustive over the data that decides the property: both lookup tables, the 52 dispatch rows, "
             "the 13 flush weights, the rank walk order and the rank code are extracted from the type-checked program "
             "and every slot a seven-card hand can reach (4719 flush rank subsets + 49205 rank multiplicity vectors) is "
             "compared with an independently constructed numbering of the 7462 classes; the three loops applying the "
             "tables are matched against fold/threshold/walk templates that account for every call, branch and store "
             "(order independence, threshold exactly 5, suit filter on the detected suit); ordering impls by argument "
             "provenance. Tests sample 1001 hands in one order; this covers every slot and every order.",
        ref="DESIGN.md §4 C01",
        note=TB + "; the loop-template matcher and the oracle (sa/poker.py) are trusted; input cards distinct.",
        technique="static analysis: const-evaluated table extraction + MIR decision trees vs independent oracle (exhaustive), loop-template matching, argument provenance",
    ),
    "C02": dict(
        cat="other",
        text="Necessary structural conditions of exactly-once enumeration, decided for every input: counter width holds 1326 positions; "
             "every (combo, weight) of every range is copied into the entry lists unconditionally (filters may only look at the combo and the "
             "board) and the lists are never shrunk or reordered; the iterator's board is the evaluator's board; every card tested against "
             "the used-card set is also recorded (turn, river, both hole cards, unconditionally) and a hit of either hole card blocks the deal "
             "(no path to Showdown::new except through clearing the guarding flag); the flop is blocked by the showdown "
             "constructor's board test; probability = 1.0 times every chosen weight; board order b0..b4 with b3=deck[turn], b4=deck[river]; "
             "mixed-radix odometer: bound idx+1<len, +=1, scan over all players from the last one stopping at the first hit, suffix reset "
             "(advanced+1)..len on every path after an advance, whole reset with every (turn, river) advance, the position advanced only "
             "behind the scan for a player with room (and behind its None outcome where the outcome is an Option). "
             "That these structural facts add up to exactly-once over all runtime states is argued in DESIGN.md, not machine-checked.",
        ref="DESIGN.md §4 C02",
        note=TB + "; decides the named clauses, not the enumeration behaviour.",
        technique="static analysis: provenance of call arguments, must-insert / dominance rules on the MIR of the deal function, cast audit over the reachable call graph",
    ),
    "C08": dict(
        cat="other",
        text="Bounded stack is decided for every input: the resolved call graph (closures, trait-bound callbacks) under the "
             "four evaluator entry points is acyclic. Counter narrowing, the emptiness guard of every entry-list index (over all players' lists) and "
             "range constructions are decided by dataflow/dominance; every other potential panic site reachable from the "
             "entry points (asserts, unwraps, indexing, panicking std calls; both overflow-check profiles in the thorough "
             "tier) must be discharged by a rule or match an audited allowance with a stated invariant. Termination of "
             "the deal loop is not decided.",
        ref="DESIGN.md §4 C08, §3.4",
        note=TB + "; audited allowances (rules/allow_panics.json) carry human-stated invariants; preconditions: valid board and scope.",
        technique="static analysis: call-graph SCC (recursion freedom), cast/dominance rules, potential-panic site audit over MIR",
    ),
    "C03": dict(
        cat="other",
        text="Necessary structural conditions in Showdown::new / winner_len decided for every input by provenance and "
             "edge-cut dominance: the evaluated hand is exactly {p[0],p[1],board[0..4]}; None is returned under "
             "contains(board,p[0]) || contains(board,p[1]) and before evaluation; single-pass minimum discipline (best "
             "starts at u16::MAX, reset+clear under <, insert under <= with ties kept, a new best is always inserted); "
             "the seat index flows only into the winner set; the win flag is false at construction, set for members of "
             "the winner set (or, two-pass form: best = min over all players, then win = (p == best) for every player), and winner_len counts it "
             "over all players; each record stores the player's own pair, the board in order and the evaluated hand, and cards() returns "
             "those seven cards. The full winner relation over all boards and "
             "tie patterns is NOT decided.",
        ref="DESIGN.md §4 C03",
        note=TB + "; recognises the single-pass-minimum idiom present in the tree (a redesign fails closed).",
        technique="static analysis: argument provenance, edge-cut guard (dominance) rules, use-site audit of the position value on MIR",
    ),
    "C04": dict(
        cat="other",
        text="Four clauses. (1) 'afterwards stays exhausted' is proved for every input: no path from entry to an exhausted None writes (or "
             "mutably borrows) any iterator field that a branch on that path reads, and the next() wrapper writes no state. (2) scope(a,b,c,d) "
             "reaches the iterator's start/end fields by dataflow, new() defaults are (0,1,L-1,L), the exhaustion test compares (turn,end "
             "turn) and (river,end river). (3) successor: the only position writes are river+=1 under river<L-1 and turn+=1; river=turn+1, "
             "outside loops. (4) scope-independence: at construction the scope values are only copied, nothing else is computed from them, so a "
             "scoped run is a window of the unscoped run. Lexicographic visiting order follows from (3); exact scope-edge behaviour over "
             "runtime values is not separately machine-checked.",
        ref="DESIGN.md §4 C04",
        note=TB + "; roles of private fields are derived from scope()'s public parameter order, not from names.",
        technique="static analysis: write-freedom (effect) analysis on the chop entry->exhausted return, dataflow of scope parameters",
    ),
    "C05": dict(
        cat="other",
        text="Layout agreement, acceptance and expansion tables, decided for the whole notation rather than 14 sample strings: for each of the "
             "10 token shapes the regex's fixed prefix has exactly the rank / suit / kind characters of the char tables at the positions "
             "standard notation prescribes, every field is parsed from the prescribed byte, required byte equalities and the suited/offsuit "
             "selector are present, every other condition on the way to Ok must be one the notation explains (helper predicates are "
             "summarised), the weight is read from where the shape ends; expansion walks RankRange::inclusive with the prescribed endpoints, "
             "builds the prescribed rank pair per step with the token's weight and never branches on the weight; 6/4/12 combo tables "
             "complete and duplicate-free; card pairs go through the normalising constructor; the range parser strips spaces, splits on ',', "
             "parses every piece, inserts in token order into the returned map and cannot fail; every shape's optional tail accepts every weight "
             "literal of the notation (0, 1, 0.d+, 1.0+; word sets up to 6 characters compared). The end-to-end relation over all token lists "
             "is NOT decided.",
        ref="DESIGN.md §4 C05",
        note=TB + "; the table of expected positions (rules/c05.py SPEC) is the checker's statement of standard notation.",
        technique="static analysis: regex-language layout vs slice-offset provenance, argument provenance of the expansion incl. closure captures, table extraction",
    ),
    "C06": dict(
        cat="other",
        text="Claims the token-level round trip (second sentence), the separator clause and range-level NECESSARY conditions. Token level: "
             "the symbolic text of every token kind (fmt templates decoded, nested Display impls expanded to rank/suit/literal characters and "
             "the f32 weight) is compared with the parser branch for that kind (regex layout, byte→field map, equalities, kind letter, "
             "weight offset/grammar); suffix written iff weight != 1.0 as ':' + default f32 Display, accepted by every grammar; omitted = "
             "default. Range level: the run-length passes are matched against the run-merging template (absent pair or weight change closes "
             "with one token and a reset, equal weight continues, runs open at present pairs, last run closed, token kind by the run's ends, "
             "start's weight, no early exit), the leftover pass looks every combo of every cell up (no iteration skips the loops inside it) and emits every present leftover combo, the split into rank pairs compares "
             "weights exactly (C12's probe rule). That these add up to value equality for all 2^1326 ranges is not machine-checked.",
        ref="DESIGN.md §4 C06 (revised in §10)",
        note=TB + "; f32 Display/parse round trip is a std guarantee; tokens well formed.",
        technique="static analysis: writer/reader table agreement — decoded fmt templates vs regex-language layout and slice-offset provenance of the parser",
    ),
    "C07": dict(
        cat="proof",
        text="Complete for the stated mechanism: the interval partition of hand_type() is extracted from MIR and compared with the category of "
             "every one of the 7462 classes of an independently built numbering; and, because the category of a HAND is hand_type of its "
             "evaluated index, all C01 rules (both tables exhaustively, hash constants, loop templates) are re-evaluated under this id. All "
             "obligations are discharged on every run.",
        ref="DESIGN.md §4 C07",
        note=TB + "; assumes C01 (power index is the standard class 1..=7462).",
        technique="static analysis: MIR decision-tree extraction (interval partition) vs independent class oracle, exhaustive over 7462 indexes",
    ),
    "C09": dict(
        cat="other",
        text="Panic-freedom argument over every body reachable from the six FromStr impls, token expansion, range formatting and "
             "decomposition: all 50 str slicing sites are discharged by ASCII+length guards on the same string (dominance; start-anchored "
             "ASCII regex prefixes incl. cached regexes, is_ascii, len tests, starts_with), span-shaped tokens are only built under the "
             "rank-order comparison that keeps RANKS[start..=end] and next().unwrap() in bounds (and the expansion is checked to use exactly "
             "those arguments), every RankRange/SuitRange construction has ordered bounds, regex literals are inside the analysed subset, "
             "checked gets, distinct-card guards (a combo of one card twice would crash the evaluator), the evaluator's emptiness guard "
             "(a text whose tokens are all rejected parses to an empty range; C08's rule evaluated here); the remaining sites carry audited "
             "invariants keyed by owner/kind/operand class. Thorough tier repeats the audit with overflow checks off and cross-references "
             "clippy's restriction lints.",
        ref="DESIGN.md §4 C09, §3.4",
        note=TB + "; panics inside regex/std other than the documented ones and allocation failure are assumed away; audited allowances carry stated invariants.",
        technique="static analysis: potential-panic site enumeration over the reachable call graph with dominance-based discharge rules (string guards, order guards) and an audited allowance table",
    ),
    "C10": dict(
        cat="other",
        text="Decides both halves for every input string: the ':weight' tail of each of the 7 token regexes is analysed as a regular "
             "language (plain decimal numerals; integer part 0, or 1 with absent/all-zero fraction) so every stored weight is in "
             "[0,1] (f32 parsing is monotone), the offsets tie the weight parser's input to that tail and its default is in "
             "[0,1]; SingleCardPair is only built under pair[0] != pair[1] and Suited(a,b) only under a test implying a != b "
             "(with the combo tables this excludes a combo of one card twice). Showdown-level consequences follow from "
             "C02/C03.",
        ref="DESIGN.md §4 C10",
        note=TB + "; f32::from_str correctly rounded; regex crate implements the literal's language.",
        technique="static analysis: regular-language bound of the weight grammar, dominance of distinctness guards over token constructions",
    ),
    "C11": dict(
        cat="other",
        text="Mechanisms only: a use-site audit of every Suit-typed value in the bodies reachable from MadeHand::from, Showdown::new and "
             "winner_len shows evaluation depends on suits only through equality with non-constant suits and through an injective code "
             "used solely to index a local counter array (no suit constant incl. promoted ones, match, ordering or arithmetic on the code); "
             "the seat index only enters the winner set; winner flags/count discipline (C03's rules); the unscoped evaluator covers the "
             "whole position line and moves by lexicographic successor (C04's rules); blocking between players is symmetric (C02's used-set "
             "rule); the deck is the complement of the board whichever cards it holds and in whichever order (C02's deck rule); the odometer "
             "advances the rightmost player with room (C02's odometer rule). The metamorphic relation over whole enumerations (two runs of the pipeline) is NOT decided.",
        ref="DESIGN.md §4 C11",
        note=TB + "; deck/odometer order affecting only the order of deals is assumed (C02 decides necessary conditions only).",
        technique="static analysis: typed use-site (taint) audit of Suit values and of the player position over the reachable call graph",
    ),
    "C12": dict(
        cat="other",
        text="Data clauses: the 6/4/12 combo tables are complete and duplicate-free (so all() over them is a complete test); "
             "each probe combo of rank_pairs() is a member of the table of the rank pair it probes, the all() runs over that "
             "same rank pair and compares each combo's weight with the probe's weight (closure captures resolved), the "
             "probe's weight is what is reported, and nothing but an absent probe or a failed all() keeps a pair from being reported; "
             "the loops cover all 13+78+78 rank pairs; orphan_card_pairs removes from a "
             "clone exactly the combos of the reported pairs. The weight logic over partial patterns is NOT decided.",
        ref="DESIGN.md §4 C12",
        note=TB + ".",
        technique="static analysis: table extraction, membership of probe combos, provenance through closure captures, loop-domain constants",
    ),
    "C13": dict(
        cat="proof",
        text="Complete for the stated finite domain: every encoding table is extracted from the type-checked program and "
             "checked entry by entry — 13+4 codes = declaration index with derived Ord, next/prev (26 entries), char tables in "
             "both directions with an interval partition of the whole char domain (every other code point rejected), the 52 "
             "bit encodings (single distinct bit < 2^52) and the if-cascade decoder evaluated on each, RANKS/SUITS, the three "
             "range constructors and both slicing arms, the Display template and FromStr shape of Card. All obligations "
             "discharged on every run; tests cover 13 of 52 cards.",
        ref="DESIGN.md §4 C13",
        note=TB + "; reversed range endpoints are outside the property's domain.",
        technique="static analysis: MIR decision-tree / interval-partition extraction, const evaluation, fmt template decoding; exhaustive over the finite tables",
    ),
    "C14": dict(
        cat="other",
        text="Who-may-construct over every body of the crate (all targets in the thorough tier): the CardPair tuple constructor is "
             "used only in CardPair::new and both fields are private (compile_fail witnesses from outside the crate in the "
             "thorough tier); new's decision tree stores the smaller card first on every path under the derived total order "
             "of Card; Eq/Hash/Ord impls are derived; FromStr builds through new from bytes [0..2],[2..4] under len==4; "
             "Display emits exactly the two cards; Index 0/1 return fields 0/1. Together: new(a,b)==new(b,a), equal hashes, "
             "pair[0]<=pair[1], text round trip, for all 52x51 pairs.",
        ref="DESIGN.md §4 C14",
        note=TB + "; relies on C13 for Card's text being a bijection.",
        technique="static analysis: who-may-construct query over MIR aggregates, decision tree of the constructor, derived-impl facts, compile_fail type witnesses",
    ),
    "C15": dict(
        cat="proof",
        text="Decides the stated mechanism for every interleaving and thread schedule: no body reachable from the evaluator "
             "entry points (resolved call graph incl. closures and trait-bound callbacks) touches a static, a thread-local "
             "or user unsafe; every type reachable through the fields of the evaluator, its iterator, ranges and showdowns "
             "is Freeze, Send, Sync, lifetime-free and has no reference/raw-pointer/Rc/Arc/lock/cell/atomic field; inputs "
             "are cloned; hashers are deterministic. In safe Rust two live iterators then share no mutable location. "
             "Send+Sync also witnessed by a crate compiled against the tree (thorough), with a compile_fail twin.",
        ref="DESIGN.md §4 C15",
        note=TB + "; std/regex/fxhash assumed data-race-free behind safe APIs.",
        technique="static analysis: effect/ownership audit over the reachable call graph (statics, TLS, unsafe), type-structure audit (Freeze/Send/Sync via trait selection), compile-time witnesses",
    ),
    "C17": dict(
        cat="other",
        text="For every construction history: (1) in all bodies reachable from the Display impls hash-ordered iteration only feeds "
             "order-insensitive sinks and exits on exhaustion, and tokens are pushed inside loops over the fixed tables; (2) the three "
             "run-length passes match the run-merging template (absent pair or weight change closes the run with exactly one token and a "
             "reset; equal weight continues: runs are maximal; runs open at present pairs also right after a close; the last run is "
             "closed; single / + / span chosen by the run's ends per path; start's weight; no early exit; suited and offsuit passes are "
             "checked by the same template = sibling agreement); row domains and pass order pockets → suited → offsuit → leftovers; the "
             "leftover pass looks every cell's combos up and emits every present leftover combo in table order; (3) a token's text determines its weight (suffix iff != 1.0, "
             "default f32 Display); (4) rank_pairs(), which the passes merge, reports a rank pair exactly when its probe combo is present "
             "and all its combos carry the probe's weight - no further condition may drop a complete pair (C12's reporting rule). What remains trusted is the template matcher and std's Option/HashMap semantics.",
        ref="DESIGN.md §4 C17",
        note=TB + "; Vec / RankRange / SuitRange iterate in fixed order.",
        technique="static analysis: effect audit of hash-ordered loops and iterator chains over the reachable call graph",
    ),
}

NA = [
    {"property_id": "C16", "reason": "numerical f32 sqrt/floor/ceil statement per worker count; no interval or shape argument bounds it, and the property is in fact violated for n=17,19,23,... which only evaluation can show (DESIGN.md §5)"},
]

def main():
    props = [json.loads(l)["id"] for l in open(os.path.join(HERE, "properties.jsonl"))]
    checks = []
    for pid in props:
        c = CHECKS.get(pid)
        if not c:
            continue
        checks.append({
            "property_id": pid,
            "quick_cmd": f"./check {pid} --tier quick",
            "thorough_cmd": f"./check {pid} --tier thorough",
            "evidence_file": f"/verif/evidence/{pid}.json",
            "replay_cmd_template": f"./check {pid} --replay {{path}}",
            "engine": "espada-facts+rules",
            "level_claimed": {"category": c["cat"], "text": c["text"], "design_ref": c["ref"]},
            "level_note": c["note"],
            "technique": c["technique"],
        })
    claimed = {c["property_id"] for c in checks}
    na = [n for n in NA if n["property_id"] not in claimed]
    for pid in props:
        if pid not in claimed and pid not in {n["property_id"] for n in na}:
            na.append({"property_id": pid, "reason": "check not built yet (build in progress); planned in DESIGN.md §4"})
    m = {
        "version": 1,
        "setup_cmd": "./setup.sh",
        "hooks": {
            "guard": "espada_verif",
            "enable": "none needed: the checks read the unmodified build of /repo through a rustc_private driver (RUSTC_WORKSPACE_WRAPPER under cargo +nightly check)",
            "baseline_off_cmd": "cd /repo && cargo test --workspace --no-fail-fast --offline",
            "source_commits": [],
            "add_only": True,
        },
        "engines": [
            {"name": "espada-facts", "path": "driver/", "serves_properties": sorted(claimed),
             "kind_free_text": "rustc_private driver: MIR with resolved callees, evaluated consts, ADT facts, unsafe/static census as JSON"},
            {"name": "rules", "path": "sa/ rules/ check", "serves_properties": sorted(claimed),
             "kind_free_text": "python static-analysis library (CFG, dominance, provenance, decision trees, call graph, regex language) and one rule module per property"},
        ],
        "checks": checks,
        "not_applicable": na,
        "notes": "All checks are static: they inspect /repo's current source via cargo +nightly check and never run code of the crate. See DESIGN.md.",
    }
    with open(os.path.join(HERE, "MANIFEST.json"), "w") as fh:
        json.dump(m, fh, indent=1)
    print("claimed:", sorted(claimed), "n/a:", [n["property_id"] for n in na])

if __name__ == "__main__":
    main()
