#!/usr/bin/env python3
"""Summarise build/mutgen/results.jsonl: survivors of the baseline tests that no check reported."""
import json, sys
rs = {}
for l in open('/verif/build/mutgen/results.jsonl'):
    r = json.loads(l)
    rs[r['id']] = r
rs = list(rs.values())
from collections import Counter
print(Counter(r['status'] for r in rs))
sv = [r for r in rs if r['status'] == 'survived']
und = [r for r in sv if not r.get('fired')]
print(len(sv), 'survived;', len(und), 'undetected')
skip = set(l.split()[0] for l in open('/verif/tools/mutgen_triage.txt') if l.strip() and not l.startswith('#')) if __import__('os').path.exists('/verif/tools/mutgen_triage.txt') else set()
for r in sorted(und, key=lambda r: (r['file'], r['line'])):
    if r['id'] in skip and '--all' not in sys.argv:
        continue
    print(f"{r['id']} {r['file']}:{r['line']} [{r['what']}]\n   - {r['old'].strip()[:130]}\n   + {r['new'].strip()[:130]}")
