#!/usr/bin/env python3
"""print the markdown table of /verif/seeded/*/meta.json (for DESIGN.md §11)"""
import glob, json, os
rows = []
for m in sorted(glob.glob(os.path.join(os.path.dirname(os.path.dirname(os.path.abspath(__file__))), "seeded", "*", "meta.json"))):
    d = json.load(open(m))
    tgt = d["property"]
    caught = d["caught_by"]
    own = "yes" if tgt in caught else ("via " + ",".join(caught) if caught else "**no**")
    others = [c for c in caught if c != tgt]
    first = d.get("first_report", {}).get(tgt) or (d.get("first_report", {}).get(caught[0]) if caught else "")
    rule = ""
    if first:
        import re
        mm = re.search(r"rule (\S+) violated", first)
        rule = mm.group(1) if mm else ""
    rows.append(f"| {d['id']} | {(d.get('summary') or '')[:150].replace('|', '/')} | {(d.get('needs_to_manifest') or '')[:110].replace('|', '/')} | {own} | {rule} | {', '.join(others) or '—'} |")
print("| seed | change | needs to manifest | caught by own property's check | first rule | other checks that fire |")
print("|---|---|---|---|---|---|")
print("\n".join(rows))
