#!/usr/bin/env python3
"""Re-run every quick check against each kept seeded change (apply to /repo, run, undo) and refresh
seeded/<id>/meta.json `checks` / `caught_by` / `first_report`.  The confirmation fields (tests pass, demo fails /
passes) were established when the seed was accepted and are left untouched."""
import glob, json, os, subprocess, sys
VERIF = os.path.dirname(os.path.dirname(os.path.abspath(__file__)))
PROPS = ["C01", "C02", "C03", "C04", "C05", "C06", "C07", "C08", "C09", "C10", "C11", "C12", "C13", "C14", "C15", "C17"]


def sh(cmd, cwd=None):
    r = subprocess.run(cmd, shell=True, cwd=cwd, stdout=subprocess.PIPE, stderr=subprocess.STDOUT, text=True)
    return r.returncode, r.stdout


def main():
    only = sys.argv[1:]
    rc, out = sh("git status --short", cwd="/repo")
    if out.strip():
        print("/repo is not clean, refusing")
        return 1
    summary = []
    for d in sorted(glob.glob(os.path.join(VERIF, "seeded", "*"))):
        sid = os.path.basename(d)
        if only and not any(o in sid for o in only):
            continue
        meta = json.load(open(os.path.join(d, "meta.json")))
        rc, out = sh(f"git apply {d}/patch.diff", cwd="/repo")
        if rc != 0:
            print(sid, "patch does not apply", out[:200])
            continue
        fired = {}
        try:
            for p in PROPS:
                rc, o = sh(f"./check {p}", cwd=VERIF)
                viol = [l for l in o.splitlines() if "violated in" in l or l.startswith("BROKEN")]
                fired[p] = {"rc": rc, "first": viol[0].strip()[:300] if viol else ""}
        finally:
            sh("git checkout -- .", cwd="/repo")
        caught = [p for p, v in fired.items() if v["rc"] == 1]
        meta["checks"] = {p: ("VIOLATION" if v["rc"] == 1 else "silent" if v["rc"] == 0 else "broken") for p, v in fired.items()}
        meta["caught_by"] = caught
        meta["first_report"] = {p: fired[p]["first"] for p in caught}
        json.dump(meta, open(os.path.join(d, "meta.json"), "w"), indent=1)
        own = meta["property"] in caught
        broken = [p for p, v in fired.items() if v["rc"] not in (0, 1)]
        print(f"{sid:8s} own={'Y' if own else '-'} caught_by={caught} broken={broken}")
        summary.append((sid, own, caught))
    # restore evidence of the unchanged tree
    for p in PROPS:
        sh(f"./check {p}", cwd=VERIF)
    print("not caught by own property's check:", [s for s, own, c in summary if not own])
    print("not caught at all:", [s for s, own, c in summary if not c])
    return 0


if __name__ == "__main__":
    sys.exit(main())
