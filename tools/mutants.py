#!/usr/bin/env python3
"""Dev-time checker validation: apply one catalogue mutation (or benign edit) to a scratch copy of
/repo (under /tmp, removed afterwards) and run the named checks against it with ESPADA_REPO.
usage: tools/mutants.py [name-substring ...]   (no args = all)"""
import os, shutil, subprocess, sys, json
HERE = os.path.dirname(os.path.dirname(os.path.abspath(__file__)))
sys.path.insert(0, HERE)
from tools.catalogue import MUTANTS

SCRATCH = "/tmp/espada-mut"

def prepare():
    shutil.rmtree(SCRATCH, ignore_errors=True)
    os.makedirs(SCRATCH)
    # mutants are edits of the committed tree: take HEAD, not a working tree another tool may have patched
    subprocess.run("git -C /repo archive HEAD src examples benches Cargo.toml Cargo.lock | tar x -C " + SCRATCH, shell=True, check=True)

def run(m):
    prepare()
    if m.get("base"):
        r = subprocess.run(["patch", "-p1", "-s", "-i", os.path.join(HERE, "benign", m["base"], "patch.diff")], cwd=SCRATCH,
                           stdout=subprocess.PIPE, stderr=subprocess.STDOUT, text=True)
        if r.returncode != 0:
            return "STALE", f"base patch {m['base']} does not apply: {r.stdout[:100]}"
    for (f, old, new) in m["edits"]:
        p = os.path.join(SCRATCH, f)
        s = open(p).read()
        if s.count(old) < 1:
            return "STALE", f"pattern not found in {f}: {old[:50]!r}"
        s = s.replace(old, new, 1)
        open(p, "w").write(s)
    res = {}
    env = dict(os.environ, ESPADA_REPO=SCRATCH)
    for prop in m["props"]:
        r = subprocess.run([os.path.join(HERE, "check"), prop], env=env, stdout=subprocess.PIPE, stderr=subprocess.STDOUT, text=True)
        res[prop] = (r.returncode, r.stdout)
    return "RAN", res

def main():
    pats = sys.argv[1:]
    verbose = "-v" in pats
    pats = [p for p in pats if p != "-v"]
    bad = 0
    for m in MUTANTS:
        if pats and not any(p in m["name"] for p in pats):
            continue
        st, res = run(m)
        if st != "RAN":
            print(f"{m['name']:45s} {st} {res}")
            bad += 1
            continue
        for prop, (rc, out) in res.items():
            want = 0 if m.get("benign") else 1
            ok = (rc == want)
            tag = "ok " if ok else "MISS" if want else "FALSE-ALARM"
            if not ok:
                bad += 1
            viol = [l for l in out.splitlines() if "violated in" in l or "BROKEN" in l]
            print(f"{m['name']:45s} {prop} rc={rc} {tag}  {viol[0][:160] if viol else ''}")
            if verbose or not ok:
                print("      " + "\n      ".join(out.splitlines()[-12:]))
    shutil.rmtree(SCRATCH, ignore_errors=True)
    # reports written for the scratch copy are not about /repo: drop them
    print("bad:", bad)
    return 1 if bad else 0

if __name__ == "__main__":
    sys.exit(main())
