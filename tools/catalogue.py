"""Mutant (must fire) and benign-edit (must stay silent) catalogue for checker validation."""
MH = "src/evaluator/made_hand.rs"
DP = "src/evaluator/dp_table.rs"

def M(name, props, *edits, benign=False, base=None):
    """base: id of a behaviour-preserving refactoring under /verif/benign applied first (mutants of refactored forms)"""
    return dict(name=name, props=props, edits=list(edits), benign=benign, base=base)

FE = "src/evaluator/flop_exhaustive.rs"
CP = "src/hand_range/card_pair.rs"
TK = "src/hand_range/hand_range_token.rs"
HRS = "src/hand_range/hand_range.rs"
RP = "src/hand_range/rank_pair.rs"
RK = "src/card/rank.rs"
ST = "src/card/suit.rs"
CD = "src/card/card.rs"
RR = "src/card/rank_range.rs"
SD = "src/evaluator/showdown.rs"

OLD_LOOP = '        for high_rank in RankRange::all() {\n            for kicker_rank in RankRange::inclusive(high_rank, Rank::Deuce) {\n                for high_suit in SuitRange::all() {\n                    for kicker_suit in SuitRange::all() {\n                        let pair = CardPair::new(\n                            Card::new(high_rank, high_suit),\n                            Card::new(kicker_rank, kicker_suit),\n                        );\n                        let probability = orphan_card_pairs.get(&pair);\n\n                        if let Some(probability) = probability {\n                            tokens.push(HandRangeToken::new(\n                                HandRangeTokenKind::SingleCardPair(pair),\n                                *probability,\n                            ));\n                        }\n                    }\n                }\n            }\n        }\n'

WL_OLD = '        let mut len = 0;\n\n        for player in &self.players {\n            if player.win {\n                len += 1;\n            }\n        }\n\n        len\n'

MUTANTS = [
    M("c04-write-before-exhaust", ["C04"], (FE, """        if self.current_turn_index >= self.turn_to && self.current_river_index >= self.river_to {
            return None;""", """        if self.current_turn_index >= self.turn_to && self.current_river_index >= self.river_to {
            self.turn_to = 48;
            self.river_to = 49;
            return None;""")),
    M("c04-scope-swapped", ["C04"], (FE, "        self.turn_to = turn_to;\n        self.river_to = river_to;", "        self.turn_to = river_to;\n        self.river_to = turn_to;")),
    M("c04-new-default", ["C04"], (FE, "            turn_to: 48,\n            river_to: 49,", "            turn_to: 47,\n            river_to: 49,")),
    M("c04-exhaust-cmp", ["C04"], (FE, "if self.current_turn_index >= self.turn_to && self.current_river_index >= self.river_to {", "if self.current_turn_index >= self.turn_to && self.current_river_index >= self.turn_to {")),
    M("c04-ctor-swapped", ["C04"], (FE, "            current_turn_index: evaluator.turn_from,\n            current_river_index: evaluator.river_from,", "            current_turn_index: evaluator.river_from,\n            current_river_index: evaluator.turn_from,")),
    M("benign-c04-clear-before-none", ["C04"], (FE, """        if self.current_turn_index >= self.turn_to && self.current_river_index >= self.river_to {
            return None;""", """        if self.current_turn_index >= self.turn_to && self.current_river_index >= self.river_to {
            self.current_used_cards.clear();
            return None;"""), benign=True),
    M("c03-dup-card", ["C03"], (SD, "player[0], player[1], board[0], board[1], board[2], board[3], board[4],\n            ]\n            .into();", "player[0], player[1], board[0], board[1], board[2], board[3], board[3],\n            ]\n            .into();")),
    M("c03-one-hole-checked", ["C03"], (SD, "if board.contains(&player[0]) || board.contains(&player[1]) {", "if board.contains(&player[0]) || board.contains(&player[0]) {")),
    M("c03-flipped", ["C03"], (SD, "if power_index <= strongest_index {\n                if power_index < strongest_index {", "if power_index >= strongest_index {\n                if power_index > strongest_index {")),
    M("c03-ties-dropped", ["C03"], (SD, "if power_index <= strongest_index {", "if power_index < strongest_index {")),
    M("c03-no-clear-on-tie-path", ["C03"], (SD, "                    strongest_index = power_index;\n                    winner_indexes.clear();", "                    strongest_index = power_index;\n                    if i > 1 { winner_indexes.clear(); }")),
    M("c03-first-seat-wins-ties", ["C03"], (SD, "                winner_indexes.insert(i);", "                if i == 0 || power_index < u16::MAX { winner_indexes.insert(i); }")),
    M("c03-init-not-max", ["C03"], (SD, "let mut strongest_index = u16::MAX;", "let mut strongest_index = 7000;")),
    M("c03-winner-len-skip", ["C03"], (SD, "        for player in &self.players {\n            if player.win {", "        for player in self.players.iter().skip(1) {\n            if player.win {")),
    M("c03-and-instead-of-or", ["C03"], (SD, "if board.contains(&player[0]) || board.contains(&player[1]) {", "if board.contains(&player[0]) && board.contains(&player[1]) {")),
    M("benign-c03-gt-form", ["C03"], (SD, "if power_index <= strongest_index {\n                if power_index < strongest_index {", "if strongest_index >= power_index {\n                if strongest_index > power_index {"), benign=True),
    M("c13-char-swap", ["C13"], (RK, "            'K' => Ok(Rank::King),\n            'Q' => Ok(Rank::Queen),", "            'K' => Ok(Rank::Queen),\n            'Q' => Ok(Rank::King),")),
    M("c13-extra-char", ["C13"], (RK, "            'T' => Ok(Rank::Ten),", "            'T' | 't' => Ok(Rank::Ten),")),
    M("c13-mask-bit", ["C13"], (CD, "const CLUB_MASK: u64 = 0b1000100010001000100010001000100010001000100010001000;", "const CLUB_MASK: u64 = 0b0000100010001000100010001000100010001000100010001000;")),
    M("c13-decoder-order", ["C13"], (CD, "        } else if value & QUEEN_MASK >= 1 {\n            Rank::Queen", "        } else if value & QUEEN_MASK >= 1 {\n            Rank::Jack")),
    M("c13-next-skip", ["C13"], (RK, "            Rank::Four => Some(Rank::Trey),", "            Rank::Four => Some(Rank::Deuce),")),
    M("c13-suit-code", ["C13"], (ST, "            Suit::Diamond => 2,\n            Suit::Club => 3,", "            Suit::Diamond => 3,\n            Suit::Club => 2,")),
    M("c13-range-new-inclusive", ["C13"], (RR, "            end: u8::from(end) as usize,\n            inclusive: false,", "            end: u8::from(end) as usize,\n            inclusive: true,")),
    M("c13-range-arms-swapped", ["C13"], (RR, "            true => RANKS[self.start..=self.end].into(),\n            false => RANKS[self.start..self.end].into(),", "            false => RANKS[self.start..=self.end].into(),\n            true => RANKS[self.start..self.end].into(),")),
    M("c13-display-swapped", ["C13"], (CD, 'write!(f, "{}{}", self.rank(), self.suit())', 'write!(f, "{}{}", self.suit(), self.rank())')),
    M("c13-fromstr-slices", ["C13"], (CD, "(Rank::from_str(&v[0..1]), Suit::from_str(&v[1..2]))", "(Rank::from_str(&v[0..1]), Suit::from_str(&v[0..2]))")),
    M("c13-ranks-table", ["C13"], (RR, "    Rank::Ace,\n    Rank::King,\n    Rank::Queen,", "    Rank::Ace,\n    Rank::Queen,\n    Rank::King,")),
    M("benign-c13-reorder-arms", ["C13"], (RK, "            'A' => Ok(Rank::Ace),\n            'K' => Ok(Rank::King),", "            'K' => Ok(Rank::King),\n            'A' => Ok(Rank::Ace),"), benign=True),
    M("benign-c13-mask-expr", ["C13"], (CD, "const ACE_MASK: u64 = 0b0000000000000000000000000000000000000000000000001111;", "const ACE_MASK: u64 = 0xF;"), benign=True),
    M("c14-raw-in-fromstr", ["C14"], (CP, "(Ok(l), Ok(r)) => Ok(CardPair::new(l, r)),", "(Ok(l), Ok(r)) => Ok(CardPair(l, r)),")),
    M("c14-new-reversed", ["C14"], (CP, "        if left > right {\n            CardPair(right, left)", "        if left < right {\n            CardPair(right, left)")),
    M("c14-new-no-swap", ["C14"], (CP, "        if left > right {\n            CardPair(right, left)", "        if left > right {\n            CardPair(left, right)")),
    M("benign-c14-display-swapped", ["C14"], (CP, 'write!(f, "{}{}", self.0, self.1)', 'write!(f, "{}{}", self.1, self.0)'), benign=True),
    M("c14-display-one-card", ["C14"], (CP, 'write!(f, "{}{}", self.0, self.1)', 'write!(f, "{}{}", self.0, self.0)')),
    M("c14-index-swapped", ["C14"], (CP, "            0 => &self.0,\n            1 => &self.1,", "            0 => &self.1,\n            1 => &self.0,")),
    M("c14-pub-field", ["C14"], (CP, "pub struct CardPair(Card, Card);", "pub struct CardPair(pub Card, pub Card);")),
    M("c14-fromstr-slices", ["C14"], (CP, "match (Card::from_str(&value[0..2]), Card::from_str(&value[2..4])) {", "match (Card::from_str(&value[0..2]), Card::from_str(&value[0..2])) {")),
    M("benign-c14-lt-form", ["C14"], (CP, "        if left > right {\n            CardPair(right, left)", "        if right < left {\n            CardPair(right, left)"), benign=True),
    M("c15-static-atomic", ["C15"], (FE, "        let mut player_card_pairs = vec![];", "        static DEALS: std::sync::atomic::AtomicUsize = std::sync::atomic::AtomicUsize::new(0);\n        if DEALS.fetch_add(1, std::sync::atomic::Ordering::Relaxed) == usize::MAX { self.current_used_cards.clear(); }\n        let mut player_card_pairs = vec![];")),
    M("c15-static-mut", ["C15"], (FE, "        let mut player_card_pairs = vec![];", "        static mut LAST: u8 = 0;\n        unsafe { LAST = self.current_turn_index; }\n        let mut player_card_pairs = vec![];")),
    M("c15-thread-local", ["C15"], (SD, "        let mut showdown_players = vec![];", "        thread_local! { static SEEN: std::cell::Cell<u32> = std::cell::Cell::new(0); }\n        SEEN.with(|s| s.set(s.get() + 1));\n        let mut showdown_players = vec![];")),
    M("c15-cell-field", ["C15"], (FE, "pub struct FlopExhaustiveEvaluator {\n    board: [Option<Card>; 5],", "pub struct FlopExhaustiveEvaluator {\n    #[allow(dead_code)]\n    hits: std::cell::Cell<u32>,\n    board: [Option<Card>; 5],"), (FE, "        Self {\n            board: board.clone(),", "        Self {\n            hits: std::cell::Cell::new(0),\n            board: board.clone(),")),
    M("c15-rc-field", ["C15"], (FE, "    players: Vec<HandRange>,\n    turn_from: u8,", "    players: std::rc::Rc<Vec<HandRange>>,\n    turn_from: u8,"), (FE, "            players: players.clone(),", "            players: std::rc::Rc::new(players.clone()),")),
    M("benign-c15-parser-regex-cache", ["C15"], (TK, "        let single_card_pair_regex =\n            Regex::new(", "        static CACHE: std::sync::OnceLock<Regex> = std::sync::OnceLock::new();\n        let _ = &CACHE;\n        let single_card_pair_regex =\n            Regex::new("), benign=True),
    M("c09-no-ascii-card", ["C09"], (CD, "if v.len() == 2 && v.is_ascii() {", "if v.len() == 2 {")),
    M("c09-no-ascii-pair", ["C09"], (CP, "        if !value.is_ascii() {\n            return Err(Self::Err::InvalidCardStr(value.to_string()));\n        }\n", "")),
    M("c09-order-guard-removed", ["C09"], (TK, "                if top <= bottom {", "                if top <= bottom || true {")),
    M("c09-order-guard-weakened", ["C09"], (TK, "                if high < kicker_bottom {", "                if high <= kicker_bottom {")),
    M("c09-regex-nonascii", ["C09"], (TK, 'Regex::new(r"^[AKQJT98765432]{2}[so](:', 'Regex::new(r"^[AKQJT98765432é]{2}[so](:')),
    M("c09-slice-beyond", ["C09"], (TK, "                        parse_probability(&s[5..]),", "                        parse_probability(&s[6..]),")),
    M("c09-new-unwrap", ["C09"], (HRS, "            if let Ok(token) = HandRangeToken::from_str(h) {", "            if let Ok(token) = Ok::<HandRangeToken, ()>(HandRangeToken::from_str(h).unwrap()) {")),
    M("c09-probability-slice", ["C09"], (TK, '    if value.len() >= 1 && value.starts_with(":") {', '    if value.len() >= 1 {')),
    M("c09-range-unordered", ["C09"], (HRS, "for kicker_rank in RankRange::inclusive(high_rank, Rank::Deuce) {", "for kicker_rank in RankRange::inclusive(high_rank, high_rank.prev().unwrap_or(Rank::Deuce)) {")),
    M("benign-c09-unanchored-end", ["C09"], (TK, '(:(0(\\.[0-9]+)?|1(\\.0+)?))?$").unwrap();\n        let single_rank_pair_regex', '(:(0(\\.[0-9]+)?|1(\\.0+)?))?").unwrap();\n        let single_rank_pair_regex'), benign=True),
    M("benign-c09-is-char-boundary-free", ["C09"], (CD, "if v.len() == 2 && v.is_ascii() {", "if v.is_ascii() && v.len() == 2 {"), benign=True),
    M("c10-weight-wider", ["C10"], (TK, 'Regex::new(r"^[AKQJT98765432]{2}[so](:(0(\\.[0-9]+)?|1(\\.0+)?))?$").unwrap();', 'Regex::new(r"^[AKQJT98765432]{2}[so](:([01](\\.[0-9]+)?))?$").unwrap();')),
    M("c10-weight-two-digits", ["C10"], (TK, 'Regex::new(r"^[AKQJT98765432]{2}(:(0(\\.[0-9]+)?|1(\\.0+)?))?$").unwrap();', 'Regex::new(r"^[AKQJT98765432]{2}(:(0[0-9]?(\\.[0-9]+)?|1(\\.0+)?))?$").unwrap();')),
    M("c10-weight-exponent", ["C10"], (TK, 'Regex::new(r"^[AKQJT98765432]{2}(:(0(\\.[0-9]+)?|1(\\.0+)?))?$").unwrap();', 'Regex::new(r"^[AKQJT98765432]{2}(:(0(\\.[0-9]+)?(e[0-9])?|1(\\.0+)?))?$").unwrap();')),
    M("c10-distinct-removed", ["C10"], (TK, "                if card_pair[0] != card_pair[1] {", "                if card_pair[0] != card_pair[1] || true {")),
    M("c10-suited-same-rank", ["C10"], (TK, "        if single_rank_pair_regex.is_match(s) && s[0..1] != s[1..2] {", "        if single_rank_pair_regex.is_match(s) {")),
    M("c10-default-2", ["C10"], (TK, "    f32::from_str(value).unwrap_or(1.0)", "    f32::from_str(value).unwrap_or(2.0)")),
    M("c10-weight-offset", ["C10", "C05"], (TK, "                        HandRangeTokenKind::SingleRankPair(RankPair::Suited(high, kicker)),\n                        parse_probability(&s[3..]),", "                        HandRangeTokenKind::SingleRankPair(RankPair::Suited(high, kicker)),\n                        parse_probability(&s[2..]),")),
    M("benign-c10-weight-equiv", ["C10"], (TK, 'Regex::new(r"^[AKQJT98765432]{2}(:(0(\\.[0-9]+)?|1(\\.0+)?))?$").unwrap();', 'Regex::new(r"^[AKQJT98765432]{2}(:(1(\\.0+)?|0(\\.[0-9]+)?))?$").unwrap();'), benign=True),
    M("c05-regex-lost-T", ["C05"], (TK, 'Regex::new(r"^[AKQJT98765432]{2}\\+(:', 'Regex::new(r"^[AKQJ98765432]{2}\\+(:')),
    M("c05-wrong-rank-pos", ["C05"], (TK, "                Rank::from_str(&s[5..6]),", "                Rank::from_str(&s[4..5]),")),
    M("c05-exclusive-range", ["C05"], (TK, "                RankPair::Pocket(rank) => RankRange::inclusive(rank, end)", "                RankPair::Pocket(rank) => RankRange::new(rank, end)")),
    M("c05-expansion-wrong-start", ["C05"], (TK, "                RankPair::Suited(high, kicker) => {\n                    RankRange::inclusive(high.next().unwrap(), kicker)", "                RankPair::Suited(high, kicker) => {\n                    RankRange::inclusive(high.next().unwrap().next().unwrap_or(kicker), kicker)")),
    M("c05-combo-dup", ["C05", "C12"], (RP, "                CardPair::new(\n                    Card::new(high, Suit::Club),\n                    Card::new(kicker, Suit::Diamond),\n                ),", "                CardPair::new(\n                    Card::new(high, Suit::Club),\n                    Card::new(kicker, Suit::Heart),\n                ),")),
    M("c05-suited-ofsuit-swapped", ["C05"], (TK, """                if &s[2..3] == "s" {
                    return Ok(HandRangeToken::new(
                        HandRangeTokenKind::SingleRankPair(RankPair::Suited(high, kicker)),""", """                if &s[2..3] == "o" {
                    return Ok(HandRangeToken::new(
                        HandRangeTokenKind::SingleRankPair(RankPair::Suited(high, kicker)),""")),
    M("c05-split-rev", ["C05"], (HRS, 'let haystacks = trimmed.split(",");', 'let haystacks = trimmed.rsplit(",");')),
    M("c05-weight-ignored", ["C05"], (TK, "                std::iter::once((card_pair, self.probability))", "                std::iter::once((card_pair, 1.0))")),
    M("c05-ofsuit-built-as-suited", ["C05"], (TK, """                        .flat_map(|r| {
                            RankPair::Ofsuit(high, r)
                                .into_iter()
                                .map(|cp| (cp, self.probability))
                        })
                        .collect::<Vec<(CardPair, f32)>>()
                        .into_iter()
                }
            },""", """                        .flat_map(|r| {
                            RankPair::Suited(high, r)
                                .into_iter()
                                .map(|cp| (cp, self.probability))
                        })
                        .collect::<Vec<(CardPair, f32)>>()
                        .into_iter()
                }
            },""")),
    M("c05-eq-dropped", ["C05"], (TK, "        if bottom_closed_pocket_pair_range_regex.is_match(s) && s[0..1] == s[1..2] {", "        if bottom_closed_pocket_pair_range_regex.is_match(s) {")),
    M("c12-probe-not-member", ["C12"], (HRS, "                    CardPair::new(Card::new(high, Suit::Spade), Card::new(kicker, Suit::Heart));", "                    CardPair::new(Card::new(high, Suit::Spade), Card::new(kicker, Suit::Spade));")),
    M("c12-all-over-other-pair", ["C12"], (HRS, "                    if ofsuit\n                        .into_iter()", "                    if RankPair::Suited(high, kicker)\n                        .into_iter()")),
    M("c12-domain-short", ["C12"], (HRS, "        for high in RankRange::inclusive(Rank::Ace, Rank::Trey) {\n            for kicker in RankRange::inclusive(high.next().unwrap(), Rank::Deuce) {\n                let example_suited", "        for high in RankRange::inclusive(Rank::Ace, Rank::Four) {\n            for kicker in RankRange::inclusive(high.next().unwrap(), Rank::Deuce) {\n                let example_suited")),
    M("c12-weight-not-compared", ["C12"], (HRS, "                    .all(|cp| self.0.get(&cp).is_some_and(|p| p == probability))\n                {\n                    rank_pairs.insert(pocket, *probability);", "                    .all(|cp| self.0.get(&cp).is_some_and(|p| p <= probability))\n                {\n                    rank_pairs.insert(pocket, *probability);")),
    M("c12-orphan-skip", ["C12"], (HRS, "            for card_pair in rank_pair {\n                clone.remove(&card_pair);", "            for card_pair in rank_pair.into_iter().skip(1) {\n                clone.remove(&card_pair);")),
    M("c12-reported-weight-const", ["C12"], (HRS, "                    rank_pairs.insert(pocket, *probability);", "                    rank_pairs.insert(pocket, 1.0);")),
    M("c11-club-special", ["C11"], (MH, "        if card.suit() == suit {\n            hash +=", "        if card.suit() == suit && *suit != Suit::Club {\n            hash +=")),
    M("c11-suit-order", ["C11"], (MH, "        if card.suit() == suit {\n            hash +=", "        if card.suit() >= suit {\n            hash +=")),
    M("c11-suit-match", ["C11"], (SD, "            let power_index = made_hand.power_index();", "            let power_index = made_hand.power_index() + match player[0].suit() { crate::card::Suit::Spade => 0, _ => 0 };")),
    M("c11-suit-code-arith", ["C11"], (MH, "        let suit_index = u8::from(suit) as usize;\n\n        suit_counts[suit_index] += 1;", "        let suit_index = u8::from(suit) as usize;\n\n        suit_counts[suit_index] += 1 + (suit_index / 4) as i32;")),
    M("c11-fixed-slot", ["C11"], (MH, "        if suit_counts[suit_index] >= 5 {", "        if suit_counts[suit_index] >= 5 && suit_counts[0] < 7 {")),
    M("c11-seat-privilege", ["C11"], (SD, "                winner_indexes.insert(i);", "                if i == 0 || power_index < u16::MAX { winner_indexes.insert(i); }")),
    M("c17-iterate-orphans", ["C17"], (HRS, OLD_LOOP, """        for (pair, probability) in &orphan_card_pairs {
            tokens.push(HandRangeToken::new(
                HandRangeTokenKind::SingleCardPair(*pair),
                *probability,
            ));
        }
""")),
    M("c17-collect-vec", ["C17"], (HRS, OLD_LOOP, """        let orphans: Vec<(&CardPair, &f32)> = orphan_card_pairs.iter().collect();
        for (pair, probability) in orphans {
            tokens.push(HandRangeToken::new(
                HandRangeTokenKind::SingleCardPair(*pair),
                *probability,
            ));
        }
""")),
    M("c17-first-item", ["C17"], (HRS, "        let mut pocket_start_rank = None;\n", "        let mut pocket_start_rank = None;\n        if let Some((rp, _)) = rank_pairs.iter().next() { if let RankPair::Pocket(r) = rp { pocket_start_rank = Some(*r); } }\n")),
    M("benign-c17-count", ["C17"], (HRS, "        let mut tokens = vec![];\n\n        let mut pocket_start_rank = None;", "        let mut tokens = Vec::with_capacity(orphan_card_pairs.iter().count());\n\n        let mut pocket_start_rank = None;"), benign=True),
    M("benign-regex-cache", ["C05", "C09", "C10", "C15"],
      (TK, """        let single_pocket_pair_regex =
            Regex::new(r"^[AKQJT98765432]{2}(:(0(\\.[0-9]+)?|1(\\.0+)?))?$").unwrap();""", """        static SINGLE_POCKET: std::sync::LazyLock<Regex> = std::sync::LazyLock::new(|| {
            Regex::new(r"^[AKQJT98765432]{2}(:(0(\\.[0-9]+)?|1(\\.0+)?))?$").unwrap()
        });
        let single_pocket_pair_regex = &*SINGLE_POCKET;"""),
      (TK, """        let single_rank_pair_regex =
            Regex::new(r"^[AKQJT98765432]{2}[so](:(0(\\.[0-9]+)?|1(\\.0+)?))?$").unwrap();""", """        static SINGLE_RANK: std::sync::OnceLock<Regex> = std::sync::OnceLock::new();
        let single_rank_pair_regex = SINGLE_RANK
            .get_or_init(|| Regex::new(r"^[AKQJT98765432]{2}[so](:(0(\\.[0-9]+)?|1(\\.0+)?))?$").unwrap());"""), benign=True),
    M("benign-c03-ordering-match", ["C03", "C11"], (SD, """            if power_index <= strongest_index {
                if power_index < strongest_index {
                    strongest_index = power_index;
                    winner_indexes.clear();
                }

                winner_indexes.insert(i);
            }
""", """            match power_index.cmp(&strongest_index) {
                std::cmp::Ordering::Less => {
                    strongest_index = power_index;
                    winner_indexes.clear();
                    winner_indexes.insert(i);
                }
                std::cmp::Ordering::Equal => {
                    winner_indexes.insert(i);
                }
                std::cmp::Ordering::Greater => {}
            }
"""), benign=True),
    M("c03-ordering-match-no-equal", ["C03"], (SD, """            if power_index <= strongest_index {
                if power_index < strongest_index {
                    strongest_index = power_index;
                    winner_indexes.clear();
                }

                winner_indexes.insert(i);
            }
""", """            match power_index.cmp(&strongest_index) {
                std::cmp::Ordering::Less => {
                    strongest_index = power_index;
                    winner_indexes.clear();
                    winner_indexes.insert(i);
                }
                _ => {}
            }
""")),
    M("c06-epsilon-suffix", ["C06"], (TK, "        if self.probability == 1.0 {\n            res", "        if (self.probability - 1.0).abs() < f32::EPSILON {\n            res")),
    M("c06-ofsuit-letter", ["C06"], (RP, 'RankPair::Ofsuit(high, kicker) => write!(f, "{}{}o", high, kicker),', 'RankPair::Ofsuit(high, kicker) => write!(f, "{}{}x", high, kicker),')),
    M("c06-span-args-swapped", ["C06"], (TK, 'RankPair::Suited(high, kicker) => write!(f, "{}{}s-{}{}s", high, kicker, high, end),', 'RankPair::Suited(high, kicker) => write!(f, "{}{}s-{}{}s", high, end, high, kicker),')),
    M("c06-precision", ["C06"], (TK, 'res.and(write!(f, ":{}", self.probability))', 'res.and(write!(f, ":{:.2}", self.probability))')),
    M("c06-plus-moved", ["C06"], (TK, 'write!(f, "{}+", rank_pair)', 'write!(f, "+{}", rank_pair)')),
    M("c06-weight-separator", ["C06"], (TK, 'res.and(write!(f, ":{}", self.probability))', 'res.and(write!(f, "@{}", self.probability))')),
    M("c06-parser-kind-letter", ["C06", "C05"], (TK, 'Regex::new(r"^[AKQJT98765432]{2}[so]\\+(:', 'Regex::new(r"^[AKQJT98765432]{2}[su]\\+(:')),
    M("c06-range-separator", ["C06"], (HRS, 'res = res.and(write!(f, ",{}", token));', 'res = res.and(write!(f, ";{}", token));')),
    M("benign-c06-comma-space", ["C06"], (HRS, 'res = res.and(write!(f, ",{}", token));', 'res = res.and(write!(f, ", {}", token));'), benign=True),
    M("benign-c03-winner-len-iter", ["C03", "C11", "C08"], (SD, WL_OLD, "        self.players.iter().filter(|player| player.win).count() as u8\n"), benign=True),
    M("c03-winner-len-iter-skip", ["C03"], (SD, WL_OLD, "        self.players.iter().skip(1).filter(|player| player.win).count() as u8\n")),
    M("benign-c08-any-fn-item", ["C08"], (FE, "if self.player_entries.iter().any(|entry| entry.is_empty()) {", "if self.player_entries.iter().any(Vec::is_empty) {"), benign=True),
    M("benign-parser-merged-return", ["C05", "C06", "C09", "C10"], (TK, '                if &s[2..3] == "s" {\n                    return Ok(HandRangeToken::new(\n                        HandRangeTokenKind::SingleRankPair(RankPair::Suited(high, kicker)),\n                        parse_probability(&s[3..]),\n                    ));\n                }\n\n                return Ok(HandRangeToken::new(\n                    HandRangeTokenKind::SingleRankPair(RankPair::Ofsuit(high, kicker)),\n                    parse_probability(&s[3..]),\n                ));\n', '                let pair = if &s[2..3] == "s" {\n                    RankPair::Suited(high, kicker)\n                } else {\n                    RankPair::Ofsuit(high, kicker)\n                };\n\n                return Ok(HandRangeToken::new(\n                    HandRangeTokenKind::SingleRankPair(pair),\n                    parse_probability(&s[3..]),\n                ));\n'), benign=True),
    M("c05-merged-return-swapped", ["C05"], (TK, '                if &s[2..3] == "s" {\n                    return Ok(HandRangeToken::new(\n                        HandRangeTokenKind::SingleRankPair(RankPair::Suited(high, kicker)),\n                        parse_probability(&s[3..]),\n                    ));\n                }\n\n                return Ok(HandRangeToken::new(\n                    HandRangeTokenKind::SingleRankPair(RankPair::Ofsuit(high, kicker)),\n                    parse_probability(&s[3..]),\n                ));\n', '                let pair = if &s[2..3] == "o" {\n                    RankPair::Suited(high, kicker)\n                } else {\n                    RankPair::Ofsuit(high, kicker)\n                };\n\n                return Ok(HandRangeToken::new(\n                    HandRangeTokenKind::SingleRankPair(pair),\n                    parse_probability(&s[3..]),\n                ));\n')),
    M("benign-c02-extract-scan-helper", ["C02", "C04", "C08"], (FE, '        let mut player_index_to_increment = None;\n\n        for i in 0..self.current_player_indexes.len() {\n            let ri = self.current_player_indexes.len() - i - 1;\n\n            if self.current_player_indexes[ri] + 1 < self.player_entries[ri].len() {\n                player_index_to_increment = Some(ri);\n\n                break;\n            }\n        }\n', '        let player_index_to_increment = self.player_to_advance();\n'), (FE, "\n#[cfg(test)]\nmod tests {", '\nimpl FlopExhaustiveEvaluatorIterator {\n    // the last player whose range still has an untried combo.\n    fn player_to_advance(&self) -> Option<usize> {\n        for i in 0..self.current_player_indexes.len() {\n            let ri = self.current_player_indexes.len() - i - 1;\n\n            if self.current_player_indexes[ri] + 1 < self.player_entries[ri].len() {\n                return Some(ri);\n            }\n        }\n\n        None\n    }\n}\n\n#[cfg(test)]\nmod tests {'), benign=True),
    M("c17-run-absent-not-closing", ["C17", "C06"], (HRS, "                if probability.is_none() || probability.unwrap_or(&0_f32) != start_probability {\n                    let prev_rank = rank.prev().unwrap();", "                if probability.unwrap_or(&0_f32) != start_probability {\n                    let prev_rank = rank.prev().unwrap();")),
    M("c17-run-weight-lt", ["C17"], (HRS, "                if probability.is_none() || probability.unwrap_or(&0_f32) != start_probability {\n                    let prev_rank = rank.prev().unwrap();", "                if probability.is_none() || probability.unwrap_or(&0_f32) < start_probability {\n                    let prev_rank = rank.prev().unwrap();")),
    M("c17-run-plus-condition", ["C17"], (HRS, "                    if start_rank == Rank::Ace && prev_rank != Rank::Ace {", "                    if prev_rank != Rank::Ace {")),
    M("c17-run-span-end", ["C17"], (HRS, "                            HandRangeTokenKind::DoubleClosedRankPairRange(\n                                RankPair::Pocket(start_rank),\n                                prev_rank,\n                            ),", "                            HandRangeTokenKind::DoubleClosedRankPairRange(\n                                RankPair::Pocket(start_rank),\n                                rank,\n                            ),")),
    M("c17-run-weight-of-current", ["C17"], (HRS, "                            HandRangeTokenKind::SingleRankPair(RankPair::Pocket(prev_rank)),\n                            *start_probability,", "                            HandRangeTokenKind::SingleRankPair(RankPair::Pocket(prev_rank)),\n                            *probability.unwrap_or(start_probability),")),
    M("c17-run-open-at-absent", ["C17"], (HRS, "            if pocket_start_rank.is_none() && probability.is_some() {", "            if pocket_start_rank.is_none() {")),
    M("c17-run-no-reset", ["C17"], (HRS, "                    pocket_start_rank = None;\n", "")),
    M("c17-last-run-not-closed", ["C17", "C06"], (HRS, "            if let Some(suited_start_rank) = suited_start_rank {", "            if let (Some(suited_start_rank), true) = (suited_start_rank, first_rank != Rank::Deuce) {")),
    M("c17-sibling-divergence", ["C17"], (HRS, "                        if start_rank == first_rank && prev_rank != first_rank {\n                            tokens.push(HandRangeToken::new(\n                                HandRangeTokenKind::BottomClosedRankPairRange(RankPair::Ofsuit(", "                        if start_rank == first_rank {\n                            tokens.push(HandRangeToken::new(\n                                HandRangeTokenKind::BottomClosedRankPairRange(RankPair::Ofsuit(")),
    M("c17-leftover-kicker-range", ["C17", "C06"], (HRS, "            for kicker_rank in RankRange::inclusive(high_rank, Rank::Deuce) {", "            for kicker_rank in RankRange::inclusive(high_rank.next().unwrap_or(Rank::Deuce), Rank::Deuce) {")),
    M("c17-kicker-row-short", ["C17"], (HRS, "            for kicker in RankRange::inclusive(first_rank, Rank::Deuce) {\n                let probability = rank_pairs.get(&RankPair::Suited(high, kicker));", "            for kicker in RankRange::inclusive(first_rank, Rank::Trey) {\n                let probability = rank_pairs.get(&RankPair::Suited(high, kicker));")),
    M("benign-c17-run-eq-form", ["C17", "C06"], (HRS, "                if probability.is_none() || probability.unwrap_or(&0_f32) != start_probability {\n                    let prev_rank = rank.prev().unwrap();", "                if probability.is_none() || !(probability.unwrap_or(&0_f32) == start_probability) {\n                    let prev_rank = rank.prev().unwrap();"), benign=True),
    M("c08-recursion", ["C08"], (FE, """        loop {
            if let Some(showdown) = self.next_deal()? {
                return Some(showdown);
            }
        }""", """        match self.next_deal()? {
            Some(showdown) => Some(showdown),
            None => self.next(),
        }""")),
    M("c08-empty-guard-removed", ["C08"], (FE, "if self.player_entries.iter().any(|entry| entry.is_empty()) {", "if false && self.player_entries.iter().any(|entry| entry.is_empty()) {")),
    M("c08-empty-guard-wrong-polarity", ["C08"], (FE, "if self.player_entries.iter().any(|entry| entry.is_empty()) {", "if self.player_entries.iter().all(|entry| entry.is_empty()) {")),
    M("c02-u8-counter", ["C02", "C08"], (FE, "if self.current_player_indexes[ri] + 1 < self.player_entries[ri].len() {", "if self.current_player_indexes[ri] + 1 < (self.player_entries[ri].len() as u8) as usize {")),
    M("c02-insert-removed", ["C02"], (FE, "            self.current_used_cards.insert(entry.0[1]);\n", "")),
    M("c02-insert-conditional", ["C02"], (FE, "            self.current_used_cards.insert(entry.0[1]);\n", "            if player_index > 0 { self.current_used_cards.insert(entry.0[1]); }\n")),
    M("c02-odometer-plus2", ["C02"], (FE, "if self.current_player_indexes[ri] + 1 < self.player_entries[ri].len() {", "if self.current_player_indexes[ri] + 2 < self.player_entries[ri].len() {")),
    M("c02-odometer-forward-scan", ["C02"], (FE, "            let ri = self.current_player_indexes.len() - i - 1;", "            let ri = i;")),
    M("c02-odometer-no-break", ["C02"], (FE, "                player_index_to_increment = Some(ri);\n\n                break;", "                player_index_to_increment = Some(ri);")),
    M("c02-odometer-reset-range", ["C02"], (FE, "for i in (player_index_to_increment + 1)..self.current_player_indexes.len() {", "for i in (player_index_to_increment + 2)..self.current_player_indexes.len() {")),
    M("benign-c02-rev-scan", ["C02", "C08"], (FE, """        for i in 0..self.current_player_indexes.len() {
            let ri = self.current_player_indexes.len() - i - 1;
""", """        for ri in (0..self.current_player_indexes.len()).rev() {
"""), benign=True),
    M("benign-c02-insert-as-test", ["C02"], (FE, """            if self.current_used_cards.contains(&entry.0[0])
                || self.current_used_cards.contains(&entry.0[1])
            {
                is_materialized = false;
            }

            self.current_used_cards.insert(entry.0[0]);
            self.current_used_cards.insert(entry.0[1]);
""", """            let fresh0 = self.current_used_cards.insert(entry.0[0]);
            let fresh1 = self.current_used_cards.insert(entry.0[1]);

            if !fresh0 || !fresh1 {
                is_materialized = false;
            }
"""), benign=True),
    M("c02-insert-result-ignored", ["C02"], (FE, """            if self.current_used_cards.contains(&entry.0[0])
                || self.current_used_cards.contains(&entry.0[1])
            {
                is_materialized = false;
            }
""", """            if self.current_used_cards.contains(&entry.0[0]) {
                is_materialized = false;
            }
""")),
    M("c02-prob-sum", ["C02"], (FE, "probability *= entry.1;", "probability += entry.1;")),
    M("c02-prob-first-only", ["C02"], (FE, "probability *= entry.1;", "if player_index == 0 { probability *= entry.1; }")),
    M("c02-board-swap", ["C02"], (FE, "self.current_board[3] = Some(turn);\n        self.current_board[4] = Some(river);", "self.current_board[3] = Some(river);\n        self.current_board[4] = Some(turn);")),
    M("c02-board-arg-order", ["C02"], (FE, "                    self.current_board[0].unwrap(),\n                    self.current_board[1].unwrap(),", "                    self.current_board[1].unwrap(),\n                    self.current_board[0].unwrap(),")),
    M("c08-new-unwrap", ["C08"], (FE, "        let mut player_card_pairs = vec![];", "        let _first = self.player_entries.first().unwrap();\n        let mut player_card_pairs = vec![];")),
    M("c08-inclusive-range", ["C08"], (FE, "for rank in RankRange::all() {", "for rank in RankRange::inclusive(crate::card::Rank::Ace, crate::card::Rank::Deuce) {")),
    M("benign-c02-u16-cast", ["C02", "C08"], (FE, "if self.current_player_indexes[ri] + 1 < self.player_entries[ri].len() {", "if self.current_player_indexes[ri] + 1 < (self.player_entries[ri].len() as u16) as usize {"), benign=True),
    M("benign-c02-bound-rewrite", ["C02"], (FE, "if self.current_player_indexes[ri] + 1 < self.player_entries[ri].len() {", "if self.player_entries[ri].len() > self.current_player_indexes[ri] + 1 {"), benign=True),

    M("c01-rainbow-slot", ["C01"], (DP, "pub const AS_RAINBOW: [u16; 49205] = [\n    11, 23, 11, 167,", "pub const AS_RAINBOW: [u16; 49205] = [\n    11, 23, 11, 168,")),
    M("c01-ref-entry", ["C01"], (DP, "const REF_THREE_7: [u16; 8] = [1, 8, 36, 119, 322, 749, 1540, 2850];", "const REF_THREE_7: [u16; 8] = [1, 8, 36, 119, 322, 749, 1541, 2850];")),
    M("c01-flush-weight-dup", ["C01"], (MH, "Rank::Trey => 0b10,", "Rank::Trey => 0b1,")),
    M("c01-threshold-4", ["C01"], (MH, "if suit_counts[suit_index] >= 5 {", "if suit_counts[suit_index] >= 4 {")),
    M("c01-threshold-6", ["C01"], (MH, "if suit_counts[suit_index] >= 5 {", "if suit_counts[suit_index] >= 6 {")),
    M("c01-early-break-flush-hash", ["C01"], (MH, "    for card in cards.iter() {\n        if card.suit() == suit {\n            hash +=", "    let mut n = 0;\n    for card in cards.iter() {\n        if n == 5 { break; }\n        if card.suit() == suit {\n            n += 1;\n            hash +=")),
    M("c01-skip-first-card", ["C01"], (MH, "    for card in cards.iter() {\n        if card.suit() == suit {", "    for card in cards.iter().skip(1) {\n        if card.suit() == suit {")),
    M("c01-reversed-partial-cmp", ["C01"], (MH, "self.power_index().partial_cmp(&other.power_index())", "other.power_index().partial_cmp(&self.power_index())")),
    M("c01-walk-order", ["C01"], (MH, "const RANKS: [Rank; 13] = [\n    Rank::Deuce,\n    Rank::Trey,", "const RANKS: [Rank; 13] = [\n    Rank::Trey,\n    Rank::Deuce,")),
    M("c01-break-early", ["C01"], (MH, "if remaining_card_len <= 0 {", "if remaining_card_len <= 1 {")),
    M("c01-dp-swapped-arm", ["C01"], (DP, "            Rank::Ten => REF_TWO_T[remaining_len as usize],", "            Rank::Ten => REF_TWO_9[remaining_len as usize],")),
    M("c01-wrong-suit-compare", ["C01"], (MH, "        if card.suit() == suit {\n            hash +=", "        if card.suit() == cards[0].suit() {\n            hash +=")),
    M("c01-flush-slot", ["C01"], (DP, "    0, 0, 0, 0, 0, 0, 0, 0, 0, 0, 0, 0, 0, 0, 0, 1599, 0, 0, 0, 0, 0, 0, 0, 1598,", "    0, 0, 0, 0, 0, 0, 0, 0, 0, 0, 0, 0, 0, 0, 0, 1599, 0, 0, 0, 0, 0, 0, 0, 1597,")),
    M("c01-dec-before-call", ["C01"], (MH, "        hash += dp_ref(len, &rank, remaining_card_len);\n\n        remaining_card_len -= len;", "        remaining_card_len -= len;\n\n        hash += dp_ref(len, &rank, remaining_card_len + 0);")),
    # benign edits
    M("benign-c01-gt4", ["C01"], (MH, "if suit_counts[suit_index] >= 5 {", "if suit_counts[suit_index] > 4 {"), benign=True),
    M("benign-c01-rename", ["C01"], (MH, "let flash_suit = find_flush_suit(&cards);\n\n        match flash_suit {", "let fs = find_flush_suit(&cards);\n\n        match fs {"), benign=True),
    M("benign-c01-break-eq0", ["C01"], (MH, "if remaining_card_len <= 0 {", "if remaining_card_len == 0 {"), benign=True),
    M("benign-c01-weight-expr", ["C01"], (MH, "Rank::Ace => 0b1000000000000,", "Rank::Ace => 1 << 12,"), benign=True),
    M("c07-boundary", ["C07"], (MH, "11..=166 => MadeHandType::Quads,\n            167..=322", "11..=167 => MadeHandType::Quads,\n            168..=322")),
    M("benign-c07-ifchain", ["C07"], (MH, "            3326..=6185 => MadeHandType::Pair,\n            _ => MadeHandType::HighCard,", "            x if x >= 3326 && x < 6186 => MadeHandType::Pair,\n            _ => MadeHandType::HighCard,"), benign=True),
    # ---- refactored forms (benign/<id>) stay silent, mutants of them fire -------------------------------------------
    M("benign-B2-1-two-pass-min", ["C02", "C03", "C11"], base="B2-1", benign=True),
    M("B2-1-flipped", ["C03"], (SD, "if power_index < strongest_index {", "if power_index > strongest_index {"), base="B2-1"),
    M("B2-1-flag-ne", ["C03"], (SD, "player.win = player.hand.power_index() == strongest_index;", "player.win = player.hand.power_index() != strongest_index;"), base="B2-1"),
    M("B2-1-flag-skip", ["C03"], (SD, "for player in showdown_players.iter_mut() {", "for player in showdown_players.iter_mut().skip(1) {"), base="B2-1"),
    M("B2-1-flag-const", ["C03"], (SD, "player.win = player.hand.power_index() == strongest_index;", "player.win = player.hand.power_index() == 0;"), base="B2-1"),
    M("B2-1-init", ["C03"], (SD, "let mut strongest_index = u16::MAX;", "let mut strongest_index = 7000;"), base="B2-1"),
    M("benign-B2-2-helper", ["C03", "C11"], base="B2-2", benign=True),
    M("B2-2-dup-hole", ["C03"], (SD, "MadeHand::from([hole_cards[0], hole_cards[1], b0, b1, b2, b3, b4])", "MadeHand::from([hole_cards[0], hole_cards[0], b0, b1, b2, b3, b4])"), base="B2-2"),
    M("B2-2-dup-board", ["C03"], (SD, "MadeHand::from([hole_cards[0], hole_cards[1], b0, b1, b2, b3, b4])", "MadeHand::from([hole_cards[0], hole_cards[1], b0, b1, b2, b3, b3])"), base="B2-2"),
    M("benign-B2-3-contains-store", ["C03", "C11"], base="B2-3", benign=True),
    M("B2-3-negated", ["C03"], (SD, "player.win = winner_indexes.contains(&i);", "player.win = !winner_indexes.contains(&i);"), base="B2-3"),
    M("B2-3-fold-two", ["C03"], (SD, ".fold(0, |len, _| len + 1)", ".fold(0, |len, _| len + 2)"), base="B2-3"),
    M("benign-B4-3-strip-prefix", ["C05", "C06", "C09", "C10", "C17"], base="B4-3", benign=True),
    M("B4-3-wrong-prefix", ["C10"], (TK, ".strip_prefix(':')", ".strip_prefix('.')"), base="B4-3"),
    M("B4-3-default-2", ["C10"], (TK, ".unwrap_or(1.0)", ".unwrap_or(2.0)"), base="B4-3"),
    M("B4-3-marker-swapped", ["C05"], (TK, '    if marker == "s" {\n        RankPair::Suited(high, kicker)', '    if marker == "o" {\n        RankPair::Suited(high, kicker)'), base="B4-3"),
    M("benign-B5-1-option-compare", ["C06", "C17"], base="B5-1", benign=True),
    M("B5-1-open-unguarded", ["C06"], (HRS, "            if pocket_start_rank.is_none() {\n                pocket_start_rank = probability.map(|_| rank);\n            }", "            pocket_start_rank = probability.map(|_| rank);"), base="B5-1"),
    M("B5-1-open-const", ["C06"], (HRS, "pocket_start_rank = probability.map(|_| rank);", "pocket_start_rank = probability.map(|_| Rank::Ace);"), base="B5-1"),
    M("B5-1-close-eq", ["C06"], (HRS, "if probability != Some(start_probability) {", "if probability == Some(start_probability) {"), base="B5-1"),
    M("benign-B5-2-run-token-helper", ["C06", "C17"], base="B5-2", benign=True),
    M("B5-2-single-cond", ["C06"], (HRS, "    } else if start_rank == end_rank {", "    } else if start_rank != end_rank {"), base="B5-2"),
    M("B5-2-plus-start", ["C06"], (HRS, "HandRangeTokenKind::BottomClosedRankPairRange(pair_of(end_rank))", "HandRangeTokenKind::BottomClosedRankPairRange(pair_of(start_rank))"), base="B5-2"),
    M("benign-B5-3-orphans-inline", ["C06", "C12", "C17"], base="B5-3", benign=True),
    M("B5-3-take", ["C06", "C12"], (HRS, "for rank_pair in rank_pairs.keys() {", "for rank_pair in rank_pairs.keys().take(3) {"), base="B5-3"),
    M("B5-3-other-map", ["C06", "C12"], (HRS, "let mut orphans = self.0.clone();", "let mut orphans = HandRange::empty().0.clone();"), base="B5-3"),
    M("benign-B6-1-uniform-helper", ["C06", "C12"], base="B6-1", benign=True),
    M("B6-1-any", ["C12"], (HRS, "            .all(|cp| self.0.get(&cp).is_some_and(|p| p == probability))\n        {\n            Some(*probability)", "            .any(|cp| self.0.get(&cp).is_some_and(|p| p == probability))\n        {\n            Some(*probability)"), base="B6-1"),
    M("B6-1-weight-const", ["C12"], (HRS, "            Some(*probability)\n        } else {", "            Some(1.0)\n        } else {"), base="B6-1"),
    M("B6-1-always-some", ["C12"], (HRS, "        } else {\n            None\n        }", "        } else {\n            Some(*probability)\n        }"), base="B6-1"),
    M("benign-B6-3-if-let-get", ["C06", "C12", "C17"], base="B6-3", benign=True),
    M("B6-3-ne", ["C12"], (HRS, ".all(|cp| self.0.get(&cp) == Some(probability))\n                {\n                    rank_pairs.insert(pocket", ".all(|cp| self.0.get(&cp) != Some(probability))\n                {\n                    rank_pairs.insert(pocket"), base="B6-3"),
    M("B6-3-flatten-skip", ["C12"], (HRS, "self.rank_pairs().into_keys().flatten()", "self.rank_pairs().into_keys().flatten().skip(1)"), base="B6-3"),
    M("B6-3-other-probe", ["C12"], (HRS, "if let Some(probability) = self.0.get(&example_suited) {", "if let Some(probability) = self.0.get(&example_pocket_x) {"), (HRS, "        for high in RankRange::inclusive(Rank::Ace, Rank::Trey) {\n            for kicker in RankRange::inclusive(high.next().unwrap(), Rank::Deuce) {\n                let example_suited", "        for high in RankRange::inclusive(Rank::Ace, Rank::Trey) {\n            for kicker in RankRange::inclusive(high.next().unwrap(), Rank::Deuce) {\n                let example_pocket_x = CardPair::new(Card::new(high, Suit::Spade), Card::new(high, Suit::Heart));\n                let example_suited"), base="B6-3"),
    # clippy --fix output (K1) and the remaining clippy findings fixed by hand (K2)
    M("benign-K1-clippy-autofix", ["C01", "C02", "C04", "C05", "C07", "C08", "C09", "C10", "C15"], base="K1-clippy-autofix", benign=True),
    M("benign-K2-clippy-manual", ["C01", "C02", "C07", "C08", "C15"], base="K2-clippy-manual", benign=True),
    M("K1-static-slot", ["C01", "C07"], (DP, "pub static AS_RAINBOW: [u16; 49205] = [\n    11, 23, 11, 167,", "pub static AS_RAINBOW: [u16; 49205] = [\n    11, 23, 11, 168,"), base="K1-clippy-autofix"),
    M("K1-static-atomic-table", ["C15"], (FE, "        let mut player_card_pairs = vec![];", "        static DEALS: std::sync::atomic::AtomicUsize = std::sync::atomic::AtomicUsize::new(0);\n        if DEALS.fetch_add(1, std::sync::atomic::Ordering::Relaxed) == usize::MAX { self.current_used_cards.clear(); }\n        let mut player_card_pairs = vec![];"), base="K1-clippy-autofix"),
    M("K2-partial-cmp-reversed", ["C01"], (MH, "        Some(self.cmp(other))", "        Some(other.cmp(self))"), base="K2-clippy-manual"),
    M("benign-B6-2-pipeline", ["C05", "C06", "C17"], base="B6-2", benign=True),
    M("B6-2-skip", ["C05"], (HRS, "            .split(',')\n            .filter_map(", "            .split(',')\n            .skip(1)\n            .filter_map("), base="B6-2"),
    M("B6-2-rev", ["C05"], (HRS, "            .split(',')\n            .filter_map(", "            .rsplit(',')\n            .filter_map("), base="B6-2"),
    M("B6-2-other-text", ["C05"], (HRS, ".filter_map(|haystack| HandRangeToken::from_str(haystack).ok());", ".filter_map(|haystack| HandRangeToken::from_str(haystack.trim_end_matches('+')).ok());"), base="B6-2"),
    M("B6-2-take", ["C05"], (HRS, "for (card_pair, prob) in tokens.flatten() {", "for (card_pair, prob) in tokens.flatten().take(100) {"), base="B6-2"),
    M("benign-B7-3-pad-and-then", ["C05", "C06", "C09", "C13", "C17"], base="B7-3", benign=True),
    M("B7-3-last-char", ["C13"], (RK, "value.chars().next().ok_or(()).and_then(Rank::try_from)", "value.chars().last().ok_or(()).and_then(Rank::try_from)"), base="B7-3"),
    M("B7-3-second-char", ["C13"], (ST, "value.chars().next().ok_or(()).and_then(Suit::try_from)", "value.chars().nth(1).ok_or(()).and_then(Suit::try_from)"), base="B7-3"),
    M("B7-3-display-const", ["C06"], (RK, "f.pad(c.encode_utf8(&mut [0u8; 4]))", "f.pad('A'.encode_utf8(&mut [0u8; 4]))"), base="B7-3"),
    M("B7-3-display-lower", ["C06"], (ST, "f.pad(c.encode_utf8(&mut [0u8; 4]))", "f.pad(c.to_ascii_uppercase().encode_utf8(&mut [0u8; 4]))"), base="B7-3"),
    M("benign-B8-2a-minmax", ["C05", "C14"], base="B8-2a", benign=True),
    M("B8-2a-maxmin", ["C14", "C05"], (CP, "CardPair(left.min(right), left.max(right))", "CardPair(left.max(right), left.min(right))"), base="B8-2a"),
    M("B8-2a-minmin", ["C14"], (CP, "CardPair(left.min(right), left.max(right))", "CardPair(left.min(right), left.min(right))"), base="B8-2a"),
    M("B8-2a-raw", ["C14"], (CP, "CardPair(left.min(right), left.max(right))", "CardPair(left, right)"), base="B8-2a"),
    M("benign-C1-5-fill", ["C02", "C04", "C08"], base="C1-5", benign=True),
    M("C1-5-fill-from-2", ["C02"], (FE, "self.current_player_indexes[(player_index_to_increment + 1)..].fill(0);", "self.current_player_indexes[(player_index_to_increment + 2)..].fill(0);"), base="C1-5"),
    M("C1-5-fill-one", ["C02"], (FE, "self.current_player_indexes[(player_index_to_increment + 1)..].fill(0);", "self.current_player_indexes[(player_index_to_increment + 1)..].fill(1);"), base="C1-5"),
    M("C1-5-no-reset", ["C02"], (FE, "self.current_player_indexes[(player_index_to_increment + 1)..].fill(0);", ""), base="C1-5"),
    M("benign-C4-3-vec-literal", ["C05", "C10"], base="C4-3", benign=True),
    M("C4-3-weight-const", ["C05"], (TK, "vec![(card_pair, self.probability)]", "vec![(card_pair, 1.0)]"), base="C4-3"),
    M("benign-C3-3-ne-continue", ["C01", "C07"], base="C3-3", benign=True),
    M("C3-3-eq-continue", ["C01"], (MH, "if card.suit() != suit {", "if card.suit() == suit {"), base="C3-3"),
    M("c02-no-later-reset", ["C02"], (FE, "            for i in (player_index_to_increment + 1)..self.current_player_indexes.len() {\n                self.current_player_indexes[i] = 0;\n            }\n", "")),
    M("c02-later-reset-from-2", ["C02"], (FE, "for i in (player_index_to_increment + 1)..self.current_player_indexes.len() {", "for i in (player_index_to_increment + 2)..self.current_player_indexes.len() {")),
    M("c02-river-rollover-no-fill", ["C02"], (FE, "            self.current_river_index += 1;\n            self.current_player_indexes.fill(0);", "            self.current_river_index += 1;")),
    M("c02-turn-rollover-no-fill", ["C02"], (FE, "        self.current_river_index = self.current_turn_index + 1;\n        self.current_player_indexes.fill(0);", "        self.current_river_index = self.current_turn_index + 1;")),
    M("c02-rollover-fill-one", ["C02"], (FE, "            self.current_river_index += 1;\n            self.current_player_indexes.fill(0);", "            self.current_river_index += 1;\n            self.current_player_indexes.fill(1);")),
    M("benign-c02-fill-before-advance", ["C02", "C04"], (FE, "            self.current_river_index += 1;\n            self.current_player_indexes.fill(0);", "            self.current_player_indexes.fill(0);\n            self.current_river_index += 1;"), benign=True),
    # survivors of the baseline tests found by tools/mutgen.py that no check reported at first
    M("mg-collision-and", ["C02"], (FE, "                || self.current_used_cards.contains(&entry.0[1])", "                && self.current_used_cards.contains(&entry.0[1])")),
    M("mg-flag-true", ["C02"], (FE, "                is_materialized = false;", "                is_materialized = true;")),
    M("mg-scan-from-1", ["C02"], (FE, "        for i in 0..self.current_player_indexes.len() {\n            let ri", "        for i in 1..self.current_player_indexes.len() {\n            let ri")),
    M("mg-cards-board-dup", ["C03"], (SD, "            self.board[0],\n            self.board[1],", "            self.board[1],\n            self.board[1],")),
    M("mg-cards-hole-dup", ["C03"], (SD, "            self.hole_cards[0],\n            self.hole_cards[1],", "            self.hole_cards[0],\n            self.hole_cards[0],")),
    M("mg-record-board-order", ["C03"], (SD, "board: [board[0], board[1], board[2], board[3], board[4]],", "board: [board[1], board[0], board[2], board[3], board[4]],")),
    M("mg-empty-test-skip", ["C08"], (FE, "if self.player_entries.iter().any(|entry| entry.is_empty()) {", "if self.player_entries.iter().skip(1).any(|entry| entry.is_empty()) {")),
    M("benign-empty-test-rev", ["C08"], (FE, "if self.player_entries.iter().any(|entry| entry.is_empty()) {", "if self.player_entries.iter().rev().any(|entry| entry.is_empty()) {"), benign=True),
    M("mg-weight-one-rejected", ["C05"], (TK, 'Regex::new(r"^[AKQJT98765432]{2}(:(0(\\.[0-9]+)?|1(\\.0+)?))?$").unwrap();', 'Regex::new(r"^[AKQJT98765432]{2}(:(0(\\.[0-9]+)?|0(\\.0+)?))?$").unwrap();')),
    M("mg-weight-one-digit-fraction", ["C05"], (TK, 'Regex::new(r"^[AKQJT98765432]{2}[so](:(0(\\.[0-9]+)?|1(\\.0+)?))?$").unwrap();', 'Regex::new(r"^[AKQJT98765432]{2}[so](:(0(\\.[0-9])?|1(\\.0+)?))?$").unwrap();')),
    M("c02-deck-board-take2", ["C02"], (FE, "                    .iter()\n                    .filter(|c| c.is_some())", "                    .iter()\n                    .take(2)\n                    .filter(|c| c.is_some())")),
    M("c02-deck-rank-skip", ["C02"], (FE, "        for rank in RankRange::all() {\n            for suit in SuitRange::all() {\n                let card", "        for rank in RankRange::all().into_iter().skip(1) {\n            for suit in SuitRange::all() {\n                let card")),
    M("c02-deck-any", ["C02"], (FE, "                    .all(|c| (*c).unwrap() != card)", "                    .any(|c| (*c).unwrap() != card)")),
    M("c02-deck-other-card", ["C02"], (FE, "                    current_deck.push(card);", "                    current_deck.push(Card::new(rank, crate::card::Suit::Spade));")),
    M("c02-board-sorted", ["C02"], (FE, "        let mut current_deck = Vec::with_capacity(52);", "        let mut sorted_board = evaluator.board.clone();\n        sorted_board[..3].sort_unstable();\n        let mut current_deck = Vec::with_capacity(52);"), (FE, "            current_board: evaluator.board.clone(),", "            current_board: sorted_board,")),
    # third benign round (medium modernisation edits) and mutants of the refactored forms
    M("benign-D3-5-byte-index", ["C05", "C06", "C09", "C10", "C17"], base="D3-5", benign=True),
    M("D3-5-wrong-byte", ["C05"], (TK, "            && bytes[3] == bytes[4]", "            && bytes[3] == bytes[3]"), base="D3-5"),
    M("D3-5-marker-o", ["C05"], (TK, "        if bottom_closed_rank_pair_range_regex.is_match(s) && bytes[0] != bytes[1] {", "        if bottom_closed_rank_pair_range_regex.is_match(s) && bytes[0] != bytes[2] {"), base="D3-5"),
    M("D3-5-distinct-dropped", ["C10"], (TK, "        if single_rank_pair_regex.is_match(s) && bytes[0] != bytes[1] {", "        if single_rank_pair_regex.is_match(s) {"), base="D3-5"),
    M("D3-5-byte-before-guard", ["C09"], (TK, "        let bytes = s.as_bytes();\n", "        let bytes = s.as_bytes();\n        if bytes[1] == b'x' {\n            return Err(());\n        }\n"), base="D3-5"),
    M("benign-D6-5-question-mark", ["C05", "C09", "C14"], base="D6-5", benign=True),
    M("D6-5-raw-ctor", ["C14"], (CP, "        Ok(CardPair::new(left, right))", "        Ok(CardPair(left, right))"), base="D6-5"),
    M("D6-5-same-half", ["C14"], (CP, "        let right = parse_card(&value[2..4])?;", "        let right = parse_card(&value[0..2])?;"), base="D6-5"),
    M("benign-D2-2-sum-chain", ["C01", "C07", "C08"], base="D2-2", benign=True),
    M("benign-D2-3-map-or-else", ["C01", "C07", "C08"], base="D2-3", benign=True),
    M("benign-D1-2-rev-find", ["C02", "C04", "C08"], base="D1-2", benign=True),
    M("benign-D1-1-collect", ["C02", "C08"], base="D1-1", benign=True),
    M("benign-D4-1-for-each", ["C05", "C10"], base="D4-1", benign=True),
    M("benign-D4-2-map-or", ["C06", "C17"], base="D4-2", benign=True),
    M("D4-2-map-or-false", ["C06"], (HRS, "probability.map_or(true, |p| p != start_probability)", "probability.map_or(false, |p| p != start_probability)"), base="D4-2"),
    M("D4-2-map-or-eq", ["C06"], (HRS, "probability.map_or(true, |p| p != start_probability)", "probability.map_or(true, |p| p == start_probability)"), base="D4-2"),
    M("D1-1-skip-player", ["C02"], (FE, "            .players\n            .iter()\n            .map(|player| {", "            .players\n            .iter()\n            .skip(1)\n            .map(|player| {"), base="D1-1"),
    M("D1-1-filter-weight", ["C02"], (FE, "                    .map(|(card_pair, probability)| (*card_pair, *probability))\n                    .collect()", "                    .filter(|(_, probability)| **probability > 0.0)\n                    .map(|(card_pair, probability)| (*card_pair, *probability))\n                    .collect()"), base="D1-1"),
    M("D1-2-find-no-rev", ["C02"], (FE, "            .rev()\n            .find(", "            .find("), base="D1-2"),
    M("D1-2-find-bound", ["C02"], (FE, ".find(|&ri| self.current_player_indexes[ri] + 1 < self.player_entries[ri].len());", ".find(|&ri| self.current_player_indexes[ri] + 2 < self.player_entries[ri].len());"), base="D1-2"),
    M("D2-2-filter-ne", ["C01"], (MH, "        .filter(|card| card.suit() == suit)", "        .filter(|card| card.suit() != suit)"), base="D2-2"),
    M("D2-2-skip-first", ["C01"], (MH, "    cards\n        .iter()\n        .filter(", "    cards\n        .iter()\n        .skip(1)\n        .filter("), base="D2-2"),
    M("benign-B1-3-cached-flag-zip", ["C02", "C04", "C08", "C11"], base="B1-3", benign=True),
    M("benign-D1-4-cached-flag", ["C02", "C08"], base="D1-4", benign=True),
    M("B1-3-insert-same", ["C02"], (FE, "            self.current_used_cards.insert(card_pair[1]);", "            self.current_used_cards.insert(card_pair[0]);"), base="B1-3"),
    M("B1-3-no-weight", ["C02"], (FE, "            probability *= weight;", ""), base="B1-3"),
    M("B1-3-zip-skip", ["C02"], (FE, "            .zip(self.current_player_indexes.iter())", "            .zip(self.current_player_indexes.iter().skip(1))"), base="B1-3"),
    M("B1-3-flag-skip", ["C08"], (FE, "let any_player_without_entries = player_entries.iter().any(|entries| entries.is_empty());", "let any_player_without_entries = player_entries.iter().skip(1).any(|entries| entries.is_empty());"), base="B1-3"),
    M("B1-3-flag-all", ["C08"], (FE, "let any_player_without_entries = player_entries.iter().any(|entries| entries.is_empty());", "let any_player_without_entries = player_entries.iter().all(|entries| entries.is_empty());"), base="B1-3"),
    M("D1-4-flag-const", ["C08"], (FE, "            has_empty_player,", "            has_empty_player: false,"), base="D1-4"),
    M("mgb-advance-then-rollover", ["C02"], (FE, "            return Some(showdown);\n        }\n\n        if self.current_river_index < 48 {", "        }\n\n        if self.current_river_index < 48 {")),
    M("mgb-B1-2-helper-false", ["C02"], (FE, "                self.current_player_indexes[(i + 1)..].fill(0);\n\n                true", "                self.current_player_indexes[(i + 1)..].fill(0);\n\n                false"), base="B1-2"),
    M("benign-B4-2-higher-order-helper", ["C05", "C08", "C09"], base="B4-2", benign=True),
    M("B4-2-wrong-variant", ["C05"], (TK, "                RankPair::Suited(high, kicker) => expand_rank_range(\n                    RankRange::inclusive(kicker, end),\n                    |r| RankPair::Suited(high, r),", "                RankPair::Suited(high, kicker) => expand_rank_range(\n                    RankRange::inclusive(kicker, end),\n                    |r| RankPair::Ofsuit(high, r),"), base="B4-2"),
    M("B4-2-wrong-range", ["C05"], (TK, "                RankPair::Pocket(rank) => expand_rank_range(\n                    RankRange::inclusive(Rank::Ace, rank),", "                RankPair::Pocket(rank) => expand_rank_range(\n                    RankRange::inclusive(Rank::King, rank),"), base="B4-2"),
    M("B4-2-swapped-ops", ["C05"], (TK, "                    |r| RankPair::Ofsuit(high, r),\n                    probability,\n                ),\n            },\n            HandRangeTokenKind::DoubleClosedRankPairRange", "                    |r| RankPair::Ofsuit(r, high),\n                    probability,\n                ),\n            },\n            HandRangeTokenKind::DoubleClosedRankPairRange"), base="B4-2"),
    M("benign-D3-3-expansion-loops", ["C05", "C08", "C09", "C10"], base="D3-3", benign=True),
    M("D3-3-loop-wrong-start", ["C05"], (TK, "                    for r in RankRange::inclusive(Rank::Ace, rank) {", "                    for r in RankRange::inclusive(Rank::King, rank) {"), base="D3-3"),
    M("D3-3-loop-exclusive", ["C05"], (TK, "                    for r in RankRange::inclusive(Rank::Ace, rank) {", "                    for r in RankRange::new(Rank::Ace, rank) {"), base="D3-3"),
    M("D3-3-loop-weight", ["C05"], (TK, "                            pairs.push((cp, self.probability));\n                        }\n                    }", "                            pairs.push((cp, 1.0));\n                        }\n                    }"), base="D3-3"),
    M("D3-3-single-skip", ["C05"], (TK, "                for cp in rank_pair {\n                    pairs.push((cp, self.probability));", "                for cp in rank_pair.into_iter().skip(1) {\n                    pairs.push((cp, self.probability));"), base="D3-3"),
    M("benign-D3-2-combinator-chain", ["C05", "C06", "C09", "C10", "C17"], base="D3-2", benign=True),
    M("D3-2-filter-eq", ["C10"], (TK, "            .filter(|card_pair| card_pair[0] != card_pair[1])", "            .filter(|card_pair| card_pair[0] == card_pair[1])"), base="D3-2"),
    M("D3-2-filter-dropped", ["C10"], (TK, "            .filter(|card_pair| card_pair[0] != card_pair[1])\n", ""), base="D3-2"),
    M("D3-2-weight-offset", ["C05"], (TK, "                    parse_probability(&s[4..]),\n                )\n            })\n            .ok_or(())", "                    parse_probability(&s[5..]),\n                )\n            })\n            .ok_or(())"), base="D3-2"),
    M("D3-2-guard-dropped", ["C09"], (TK, "        if !single_card_pair_regex.is_match(s) {\n            return Err(());\n        }\n", ""), base="D3-2"),
    M("benign-D5-2-early-return-map-err", ["C05", "C09", "C13"], base="D5-2", benign=True),
    M("D5-2-wrong-slice", ["C13"], (CD, "        let suit = Suit::from_str(&v[1..2]).map_err(invalid)?;", "        let suit = Suit::from_str(&v[0..1]).map_err(invalid)?;"), base="D5-2"),
    M("D5-2-no-ascii", ["C09"], (CD, "        if v.len() != 2 || !v.is_ascii() {", "        if v.len() != 2 {"), base="D5-2"),
    M("D5-2-len-3", ["C13"], (CD, "        if v.len() != 2 || !v.is_ascii() {", "        if v.len() != 3 || !v.is_ascii() {"), base="D5-2"),
    M("benign-B8-2-split-at", ["C05", "C09", "C14"], base="B8-2", benign=True),
    M("B8-2-split-at-3", ["C14"], (CP, "let (left, right) = value.split_at(2);", "let (left, right) = value.split_at(3);"), base="B8-2"),
    M("B8-2-same-half", ["C14"], (CP, "Ok(CardPair::new(parse_card(left)?, parse_card(right)?))", "Ok(CardPair::new(parse_card(left)?, parse_card(left)?))"), base="B8-2"),
    M("B8-2-no-ascii", ["C09"], (CP, "        if !value.is_ascii() {", "        if false {"), base="B8-2"),
    M("benign-c01-flush-hash-rev", ["C01", "C07"], (MH, "    for card in cards.iter() {\n        if card.suit() == suit {", "    for card in cards.iter().rev() {\n        if card.suit() == suit {"), benign=True),
    M("c01-flush-hash-skip", ["C01"], (MH, "    for card in cards.iter() {\n        if card.suit() == suit {", "    for card in cards.iter().skip(1) {\n        if card.suit() == suit {")),
    M("benign-E5-2-bitmask-used-set", ["C02", "C04", "C08", "C11", "C15"], base="E5-2", benign=True),
    M("E5-2-mask-one-hole", ["C02"], (FE, "            let hole_cards = u64::from(&entry.0[0]) | u64::from(&entry.0[1]);", "            let hole_cards = u64::from(&entry.0[0]) | u64::from(&entry.0[0]);"), base="E5-2"),
    M("E5-2-mask-no-river", ["C02"], (FE, "        self.current_used_cards |= u64::from(&turn) | u64::from(&river);", "        self.current_used_cards |= u64::from(&turn);"), base="E5-2"),
    M("E5-2-mask-no-reset", ["C02"], (FE, "        self.current_used_cards = 0;", ""), base="E5-2"),
    M("E5-2-mask-eq", ["C02"], (FE, "            if self.current_used_cards & hole_cards != 0 {", "            if self.current_used_cards & hole_cards == hole_cards {"), base="E5-2"),
    M("E5-2-mask-not-recorded", ["C02"], (FE, "            self.current_used_cards |= hole_cards;", ""), base="E5-2"),
    M("benign-B8-3-half-open-ranges", ["C05", "C08", "C09", "C13"], base="B8-3", benign=True),
    M("B8-3-inclusive-no-plus", ["C13"], (RR, "            end: index_of(end) + 1,", "            end: index_of(end),"), base="B8-3"),
    M("B8-3-inclusive-plus-2", ["C13"], (RR, "            end: index_of(end) + 1,", "            end: index_of(end) + 2,"), base="B8-3"),
    M("B8-3-slice-inclusive", ["C13"], (RR, "        RANKS[self.start..self.end].to_vec().into_iter()", "        RANKS[self.start..=self.end].to_vec().into_iter()"), base="B8-3"),
    M("benign-B7-2-computed-bit", ["C02", "C08", "C13"], base="B7-2", benign=True),
    M("B7-2-factor-3", ["C13"], (CD, "1u64 << (4 * rank_index + suit_index)", "1u64 << (3 * rank_index + suit_index)"), base="B7-2"),
    M("B7-2-swapped", ["C13"], (CD, "1u64 << (4 * rank_index + suit_index)", "1u64 << (4 * suit_index + rank_index)"), base="B7-2"),
    M("benign-D5-5-mask-shift", ["C13"], base="D5-5", benign=True),
    M("benign-F5-3-own-first-probe", ["C06", "C12"], base="F5-3", benign=True),
    M("F5-3-skip-second", ["C12"], (HRS, "let probability = self.0.get(&card_pairs.next()?)?;", "let probability = self.0.get(&card_pairs.next()?)?;\n        card_pairs.next();"), base="F5-3"),
    M("F5-3-any-weight", ["C12"], (HRS, ".all(|cp| self.0.get(&cp) == Some(probability))", ".all(|cp| self.0.get(&cp).is_some())"), base="F5-3"),
    M("F5-3-suited-twice", ["C12"], (HRS, "RankPair::Ofsuit(high, kicker),\n                ] {", "RankPair::Suited(high, kicker),\n                ] {"), base="F5-3"),
    M("F5-3-swapped-ranks", ["C12"], (HRS, "RankPair::Ofsuit(high, kicker),\n                ] {", "RankPair::Ofsuit(kicker, high),\n                ] {"), base="F5-3"),
    M("F5-3-const-weight", ["C12"], (HRS, ".then_some(*probability)", ".then_some(1.0)"), base="F5-3"),
    M("benign-D4-3-case-array", ["C06", "C12"], base="D4-3", benign=True),
    M("D4-3-wrong-probe-suit", ["C12"], (HRS, "(Suit::Heart, RankPair::Ofsuit(high, kicker)),", "(Suit::Spade, RankPair::Ofsuit(high, kicker)),"), base="D4-3"),
    M("benign-F6-4-fresh-iterators", ["C06", "C12"], base="F6-4", benign=True),
    M("F6-4-skip-first-in-all", ["C12"], (HRS, "rank_pair\n            .into_iter()\n            .all(", "rank_pair\n            .into_iter()\n            .take(3)\n            .all("), base="F6-4"),
    M("benign-F5-4-carried-weight", ["C06", "C17"], base="F5-4", benign=True),
    M("F5-4-open-const-rank", ["C06", "C17"], (HRS, "pocket_start = probability.map(|p| (rank, p));", "pocket_start = probability.map(|p| (Rank::Ace, p));"), base="F5-4"),
    M("F5-4-open-unguarded", ["C06", "C17"], (HRS, "            if pocket_start.is_none() {\n                pocket_start = probability.map(|p| (rank, p));\n            }", "            pocket_start = probability.map(|p| (rank, p));"), base="F5-4"),
    M("F5-4-close-lt", ["C06", "C17"], (HRS, "probability.unwrap_or(&0_f32) != start_probability {\n                    let prev_rank = rank.prev().unwrap();", "probability.unwrap_or(&0_f32) < start_probability {\n                    let prev_rank = rank.prev().unwrap();"), base="F5-4"),
    M("F5-4-open-other-weight", ["C06", "C17"], (HRS, "pocket_start = probability.map(|p| (rank, p));", "pocket_start = probability.map(|_| (rank, &1.0_f32));"), base="F5-4"),
    M("benign-F1-3-flat-map-deck", ["C02", "C08", "C15"], base="F1-3", benign=True),
    M("F1-3-filter-inverted", ["C02"], (FE, ".filter(|card| !evaluator.board.contains(&Some(*card)))", ".filter(|card| evaluator.board.contains(&Some(*card)))"), base="F1-3"),
    M("F1-3-no-filter", ["C02"], (FE, "            .filter(|card| !evaluator.board.contains(&Some(*card)))\n", ""), base="F1-3"),
    M("F1-3-skip-suit", ["C02"], (FE, "SuitRange::all()\n                    .into_iter()\n", "SuitRange::all()\n                    .into_iter()\n                    .skip(1)\n"), base="F1-3"),
    M("F1-3-same-rank", ["C02"], (FE, ".map(move |suit| Card::new(rank, suit))", ".map(move |suit| Card::new(crate::card::Rank::Ace, suit))"), base="F1-3"),
    M("benign-F8-3-offsuit-comprehension", ["C05", "C12", "C10", "C06"], base="F8-3", benign=True),
    M("F8-3-eq", ["C05", "C12"], (RP, "if high_suit != kicker_suit {", "if high_suit == kicker_suit {"), base="F8-3"),
    M("F8-3-same-suit-twice", ["C05", "C12"], (RP, "Card::new(kicker, kicker_suit),", "Card::new(kicker, high_suit),"), base="F8-3"),
    M("F8-3-inner-short", ["C05", "C12"], (RP, "for kicker_suit in SuitRange::all() {", "for kicker_suit in SuitRange::all().into_iter().skip(1) {"), base="F8-3"),
    M("F8-3-push-twice", ["C05", "C12"], (RP, "                        if high_suit != kicker_suit {\n", "                        if high_suit != kicker_suit {\n                            pairs.push(CardPair::new(Card::new(high, high_suit), Card::new(kicker, kicker_suit)));\n"), base="F8-3"),
    M("F8-3-other-vec", ["C05", "C12"], (RP, "                pairs.into_iter()\n", "                let _ = pairs;\n                Vec::new().into_iter()\n"), base="F8-3"),
    M("benign-D6-4-offsuit-const-suits", ["C05", "C12", "C10", "C06"], base="D6-4", benign=True),
    M("benign-G1-1-dp-ref-row-tables", ["C01", "C07", "C08"], base="G1-1", benign=True),
    M("G1-1-rows-swapped", ["C01", "C07"], (DP, "    REF_FOUR_6, REF_FOUR_5, REF_FOUR_4,", "    REF_FOUR_5, REF_FOUR_6, REF_FOUR_4,"), base="G1-1"),
    M("G1-1-wrong-table", ["C01", "C07"], (DP, "        3 => &REF_THREE,", "        3 => &REF_TWO,"), base="G1-1"),
    M("G1-1-index-swapped", ["C01", "C07"], (DP, "table[u8::from(rank) as usize][remaining_len as usize]", "table[remaining_len as usize][u8::from(rank) as usize]"), base="G1-1"),
    M("benign-G4-2-carried-weight-by-value", ["C06", "C17"], base="G4-2", benign=True),
    M("G4-2-close-eq", ["C06", "C17"], (HRS, "                if probability != Some(start_probability) {\n                    let prev_rank = rank.prev().unwrap();", "                if probability == Some(start_probability) {\n                    let prev_rank = rank.prev().unwrap();"), base="G4-2"),
    M("G4-2-open-other-weight", ["C06", "C17"], (HRS, "pocket_run = probability.map(|probability| (rank, probability));", "pocket_run = probability.map(|_| (rank, 1.0));"), base="G4-2"),
    M("G4-2-open-unguarded", ["C06", "C17"], (HRS, "            if pocket_run.is_none() {\n                pocket_run = probability.map(|probability| (rank, probability));\n            }", "            pocket_run = probability.map(|probability| (rank, probability));"), base="G4-2"),
    M("benign-G5-2-accessors", ["C06", "C12", "C05", "C10"], base="G5-2", benign=True),
    M("G5-2-all-contains-only", ["C12"], (HRS, "                    .all(|cp| self.probability(&cp) == Some(probability))\n                {\n                    rank_pairs.insert(pocket, probability);", "                    .all(|cp| self.contains(&cp))\n                {\n                    rank_pairs.insert(pocket, probability);"), base="G5-2"),
    M("benign-G5-1-peek-probe", ["C06", "C12"], base="G5-1", benign=True),
    M("G5-1-consume-extra", ["C12"], (HRS, "        card_pairs\n            .all(", "        card_pairs.next();\n        card_pairs.next();\n        card_pairs\n            .all("), base="G5-1"),
    M("benign-G7-4-range-field", ["C13", "C08", "C09", "C02", "C05", "C12"], base="G7-4", benign=True),
    M("G7-4-inclusive-no-plus", ["C13"], (RR, "indices: index_of(start)..index_of(end) + 1,", "indices: index_of(start)..index_of(end),"), base="G7-4"),
    M("G7-4-all-short", ["C13", "C08"], (RR, "indices: 0..RANKS.len(),", "indices: 1..RANKS.len(),"), base="G7-4"),
    M("G7-4-swapped", ["C13"], (RR, "indices: index_of(start)..index_of(end),", "indices: index_of(end)..index_of(start),"), base="G7-4"),
    M("benign-G3-3-local-mask", ["C02", "C11", "C08", "C15"], base="G3-3", benign=True),
    M("G3-3-forget-earlier", ["C02", "C11"], (FE, "used_cards |= hole_cards;", "used_cards = hole_cards;"), base="G3-3"),
    M("G3-3-no-river", ["C02", "C11"], (FE, "let mut used_cards = u64::from(&turn) | u64::from(&river);", "let mut used_cards = u64::from(&turn) | u64::from(&turn);"), base="G3-3"),
    M("G3-3-test-inverted", ["C02", "C11"], (FE, "if used_cards & hole_cards != 0 {", "if used_cards & hole_cards == 0 {"), base="G3-3"),
    M("G3-3-one-hole", ["C02", "C11"], (FE, "let hole_cards = u64::from(&entry.0[0]) | u64::from(&entry.0[1]);", "let hole_cards = u64::from(&entry.0[0]) | u64::from(&entry.0[0]);"), base="G3-3"),
    M("benign-G6-2-regexes-once", ["C05", "C06", "C09", "C10", "C17"], base="G6-2", benign=True),
    M("G6-2-weight-above-one", ["C10", "C05"], (TK, 'r"^[AKQJT98765432]{2}-[AKQJT98765432]{2}(:(0(\\.[0-9]+)?|1(\\.0+)?))?$"', 'r"^[AKQJT98765432]{2}-[AKQJT98765432]{2}(:(0(\\.[0-9]+)?|1(\\.[0-9]+)?))?$"'), base="G6-2"),
    M("G6-2-unanchored", ["C09"], (TK, 'single_card_pair: Regex::new(\n                r"^([AKQJT98765432][shdc]){2}(:(0(\\.[0-9]+)?|1(\\.0+)?))?$",', 'single_card_pair: Regex::new(\n                r"([AKQJT98765432][shdc]){2}(:(0(\\.[0-9]+)?|1(\\.0+)?))?$",'), base="G6-2"),
    M("benign-G6-1-expand-helper", ["C05", "C10", "C09"], base="G6-1", benign=True),
    M("G6-1-const-weight", ["C05"], (TK, "        .map(|card_pair| (card_pair, probability))\n        .collect()", "        .map(|card_pair| (card_pair, 1.0))\n        .collect()"), base="G6-1"),
    M("G6-1-wrong-ctor", ["C05"], (TK, "                    |r| RankPair::Suited(high, r),\n                ),\n                RankPair::Ofsuit(high, kicker) => expand_rank_range(\n                    RankRange::inclusive(high.next().unwrap(), kicker),", "                    |r| RankPair::Suited(high, r),\n                ),\n                RankPair::Ofsuit(high, kicker) => expand_rank_range(\n                    RankRange::inclusive(high, kicker),"), base="G6-1"),
    M("benign-G2-2-rposition-odometer", ["C02", "C08", "C04", "C11"], base="G2-2", benign=True),
    M("G2-2-bound-plus-two", ["C02"], (FE, ".rposition(|(index, entries)| index + 1 < entries.len());", ".rposition(|(index, entries)| index + 2 < entries.len());"), base="G2-2"),
    M("G2-2-first-not-last", ["C02"], (FE, ".rposition(|(index, entries)| index + 1 < entries.len());", ".position(|(index, entries)| index + 1 < entries.len());"), base="G2-2"),
    M("G2-2-reset-from-self", ["C02"], (FE, "self.current_player_indexes[(player_index + 1)..].fill(0);", "self.current_player_indexes[player_index..].fill(0);"), base="G2-2"),
    M("G2-2-no-reset", ["C02"], (FE, "                self.current_player_indexes[(player_index + 1)..].fill(0);\n", ""), base="G2-2"),
    M("G2-2-le-bound", ["C02"], (FE, ".rposition(|(index, entries)| index + 1 < entries.len());", ".rposition(|(index, entries)| index + 1 <= entries.len());"), base="G2-2"),
    M("benign-F6-3-lazy-token-loop", ["C05", "C10", "C09"], base="F6-3", benign=True),
    M("F6-3-skip-first", ["C05"], (HRS, ".filter_map(|h| h.parse::<HandRangeToken>().ok());", ".filter_map(|h| h.parse::<HandRangeToken>().ok())\n            .skip(1);"), base="F6-3"),
    M("F6-3-rsplit", ["C05"], (HRS, "            .split(',')\n            .filter_map(", "            .rsplit(',')\n            .filter_map("), base="F6-3"),
    M("F6-3-insert-if-absent", ["C05"], (HRS, "                range.0.insert(card_pair, prob);", "                range.0.entry(card_pair).or_insert(prob);"), base="F6-3"),
    M("benign-G5-3-cow-despace", ["C05", "C10", "C09"], base="G5-3", benign=True),
    M("G5-3-borrow-always", ["C05"], (HRS, "let compact = if s.contains(' ') {", "let compact = if s.contains('_') {"), base="G5-3"),
    M("G5-3-inverted", ["C05"], (HRS, "let compact = if s.contains(' ') {", "let compact = if !s.contains(' ') {"), base="G5-3"),
    M("benign-G7-3-mask-tables", ["C13", "C09", "C08"], base="G7-3", benign=True),
    M("G7-3-swapped-entries", ["C13"], (CD, "    (HEART_MASK, Suit::Heart),\n    (DIAMOND_MASK, Suit::Diamond),", "    (HEART_MASK, Suit::Diamond),\n    (DIAMOND_MASK, Suit::Heart),"), base="G7-3"),
    M("G7-3-eq-zero", ["C13"], (CD, ".find(|(mask, _)| bits & mask != 0)", ".find(|(mask, _)| bits & mask == 0)"), base="G7-3"),
    M("G7-3-last-match", ["C13"], (CD, "        .iter()\n        .find(|(mask, _)| bits & mask != 0)", "        .iter()\n        .rev()\n        .find(|(mask, _)| bits & mask != 0)"), base="G7-3", ),
    M("G7-3-rank-from-suit-table", ["C13"], (CD, "let rank = first_overlapping(&RANK_MASKS, *value)", "let rank = first_overlapping(&RANK_MASKS, *value >> 1)"), base="G7-3"),
    M("benign-B7-1-mask-tables", ["C13"], base="B7-1", benign=True),
    M("benign-D5-1-mask-tables", ["C13"], base="D5-1", benign=True),
    M("benign-G7-2-rank-table-steps", ["C13", "C09", "C08", "C05", "C12"], base="G7-2", benign=True),
    M("G7-2-next-plus-two", ["C13"], (RK, "Self::ALL.get(index + 1).copied()", "Self::ALL.get(index + 2).copied()"), base="G7-2"),
    M("G7-2-prev-minus-two", ["C13"], (RK, "index.checked_sub(1).map(|prev| Self::ALL[prev])", "index.checked_sub(2).map(|prev| Self::ALL[prev])"), base="G7-2"),
    M("G7-2-prev-oob", ["C13", "C09"], (RK, "index.checked_sub(1).map(|prev| Self::ALL[prev])", "index.checked_sub(1).map(|prev| Self::ALL[prev + 2])"), base="G7-2"),
    M("benign-D5-4-ordered-table", ["C13", "C09"], base="D5-4", benign=True),
    M("benign-B3-1-dp-ref-3d-table", ["C01", "C07", "C08"], base="B3-1", benign=True),
    M("B3-1-guard-too-narrow", ["C01", "C07"], (DP, "if !(1..=4).contains(&len) {", "if !(1..=3).contains(&len) {"), base="B3-1"),
    M("B3-1-guard-too-wide", ["C08"], (DP, "if !(1..=4).contains(&len) {", "if !(0..=4).contains(&len) {"), base="B3-1"),
    M("B3-1-no-minus-one", ["C01", "C07"], (DP, "REF_BY_LEN[(len - 1) as usize][rank_index]", "REF_BY_LEN[(len - 0) as usize % 4][rank_index]"), base="B3-1"),
    M("benign-G8-1-suit-pair-tables", ["C05", "C12", "C10", "C06"], base="G8-1", benign=True),
    M("G8-1-duplicate-entry", ["C05", "C12"], (RP, "    (Suit::Club, Suit::Heart),\n    (Suit::Club, Suit::Diamond),\n];", "    (Suit::Club, Suit::Heart),\n    (Suit::Club, Suit::Heart),\n];"), base="G8-1"),
    M("G8-1-wrong-table", ["C05", "C12"], (RP, "RankPair::Suited(high, kicker) => (high, kicker, &SUITED_SUITS),", "RankPair::Suited(high, kicker) => (high, kicker, &POCKET_SUITS),"), base="G8-1"),
    M("G8-1-swapped-ranks", ["C05", "C12"], (RP, "RankPair::Ofsuit(high, kicker) => (high, kicker, &OFSUIT_SUITS),", "RankPair::Ofsuit(high, kicker) => (kicker, kicker, &OFSUIT_SUITS),"), base="G8-1"),
    M("G8-1-same-suit", ["C05", "C12"], (RP, "CardPair::new(Card::new(high, high_suit), Card::new(kicker, kicker_suit))", "CardPair::new(Card::new(high, high_suit), Card::new(kicker, high_suit))"), base="G8-1"),
    M("c12-zero-weight-pairs-dropped", ["C12", "C06", "C17"], (HRS, "                {\n                    rank_pairs.insert(pocket, *probability);", "                    && *probability > 0.0\n                {\n                    rank_pairs.insert(pocket, *probability);")),
    M("G5-1-zero-weight-pairs-dropped", ["C12", "C17"], (HRS, "        let probability = self.0.get(card_pairs.as_slice().first()?)?;\n", "        let probability = self.0.get(card_pairs.as_slice().first()?)?;\n        if *probability <= 0.0 {\n            return None;\n        }\n"), base="G5-1"),
    M("benign-G4-1-display-case-loop", ["C06", "C17", "C09"], base="G4-1", benign=True),
    M("G4-1-offsuit-first", ["C17"], (HRS, "= [RankPair::Suited, RankPair::Ofsuit];", "= [RankPair::Ofsuit, RankPair::Suited];"), base="G4-1"),
    M("G4-1-suited-twice", ["C06", "C17"], (HRS, "= [RankPair::Suited, RankPair::Ofsuit];", "= [RankPair::Suited, RankPair::Suited];"), base="G4-1"),
    M("G4-1-run-weight-lt", ["C06", "C17"], (HRS, "                            || probability.unwrap_or(&0_f32) != start_probability\n                        {\n                            let prev_rank = kicker.prev().unwrap();", "                            || probability.unwrap_or(&0_f32) < start_probability\n                        {\n                            let prev_rank = kicker.prev().unwrap();"), base="G4-1"),
    M("benign-I7-2-computed-masks", ["C13", "C09", "C08", "C02"], base="I7-2", benign=True),
    M("I7-2-rank-shift-3", ["C13"], (CD, "ACE_MASK << (4 * u8::from(rank))", "ACE_MASK << (3 * u8::from(rank))"), base="I7-2"),
    M("I7-2-suit-shift-off", ["C13"], (CD, "SPADE_MASK << u8::from(suit)", "SPADE_MASK << (u8::from(suit) ^ 1)"), base="I7-2"),
    M("I7-2-suits-reordered", ["C13"], (CD, "const SUITS: [Suit; 4] = [Suit::Spade, Suit::Heart, Suit::Diamond, Suit::Club];", "const SUITS: [Suit; 4] = [Suit::Spade, Suit::Heart, Suit::Diamond, Suit::Diamond];"), base="I7-2"),
    M("benign-I7-1-discriminant-tables", ["C13", "C09", "C05", "C06", "C12", "C17"], base="I7-1", benign=True),
    M("I7-1-next-plus-two", ["C13"], (RK, "Self::ALL.get(*self as usize + 1).copied()", "Self::ALL.get(*self as usize + 2).copied()"), base="I7-1"),
    M("benign-I5-3-default-empty", ["C05", "C10", "C12", "C06"], base="I5-3", benign=True),
    M("benign-I8-3-representative-probe", ["C06", "C12", "C17"], base="I8-3", benign=True),
    M("I8-3-representative-wrong-suit", ["C12"], (RP, "RankPair::Suited(high, kicker) => (high, kicker, Suit::Spade),", "RankPair::Suited(high, kicker) => (high, kicker, Suit::Heart),"), base="I8-3"),
    M("I8-3-representative-swapped", ["C12"], (RP, "RankPair::Ofsuit(high, kicker) => (high, kicker, Suit::Heart),", "RankPair::Ofsuit(high, kicker) => (high, high, Suit::Heart),"), base="I8-3"),
    M("benign-I7-4-direct-writes", ["C06", "C13", "C17"], base="I7-4", benign=True),
    M("I7-4-suit-first", ["C13", "C06"], (CD, "        f.write_str(char::from(self.0).encode_utf8(&mut buffer))?;\n        f.write_str(char::from(self.1).encode_utf8(&mut buffer))", "        f.write_str(char::from(self.1).encode_utf8(&mut buffer))?;\n        f.write_str(char::from(self.0).encode_utf8(&mut buffer))"), base="I7-4"),
    M("I7-4-rank-twice", ["C13", "C06"], (CD, "        f.write_str(char::from(self.1).encode_utf8(&mut buffer))\n", "        f.write_str(char::from(self.0).encode_utf8(&mut buffer))\n"), base="I7-4"),
    M("benign-I3-1-iterator-min", ["C03", "C11", "C08"], base="I3-1", benign=True),
    M("I3-1-max", ["C03", "C11"], (SD, "            .map(|player| player.hand.power_index())\n            .min();", "            .map(|player| player.hand.power_index())\n            .max();"), base="I3-1"),
    M("I3-1-skip-first", ["C03", "C11"], (SD, "            .iter()\n            .map(|player| player.hand.power_index())\n            .min();", "            .iter()\n            .skip(1)\n            .map(|player| player.hand.power_index())\n            .min();"), base="I3-1"),
    M("I3-1-flag-ne", ["C03", "C11"], (SD, "player.win = Some(player.hand.power_index()) == strongest_index;", "player.win = Some(player.hand.power_index()) != strongest_index;"), base="I3-1"),
    M("benign-I1-3-lockstep-walk", ["C01", "C07", "C08"], base="I1-3", benign=True),
    M("I1-3-not-reversed", ["C01", "C07"], (MH, "RANKS.iter().zip(card_len_each_rank.iter().rev())", "RANKS.iter().zip(card_len_each_rank.iter())"), base="I1-3"),
    M("I1-3-hand-len-6", ["C01", "C07"], (MH, "const HAND_LEN: u8 = 7;", "const HAND_LEN: u8 = 6;"), base="I1-3"),
    M("I1-3-skip-one", ["C01", "C07"], (MH, "RANKS.iter().zip(card_len_each_rank.iter().rev())", "RANKS.iter().zip(card_len_each_rank.iter().rev().skip(1))"), base="I1-3"),
    M("benign-G6-3-constructor-pointer", ["C05", "C06", "C09", "C10", "C17"], base="G6-3", benign=True),
    M("G6-3-constructors-swapped", ["C05"], (TK, "    if flag == \"s\" {\n        RankPair::Suited\n    } else {\n        RankPair::Ofsuit\n    }", "    if flag == \"s\" {\n        RankPair::Ofsuit\n    } else {\n        RankPair::Suited\n    }"), base="G6-3"),
    M("G6-3-flag-letter", ["C05"], (TK, "    if flag == \"s\" {", "    if flag == \"o\" {"), base="G6-3"),
    M("benign-I6-3-byte-parser", ["C05", "C06", "C09", "C10", "C17"], base="I6-3", benign=True),
    M("I6-3-kind-letter-o", ["C05"], (TK, "                b's' => RankPair::Suited,", "                b'o' => RankPair::Suited,"), base="I6-3"),
    M("I6-3-wrong-byte", ["C05"], (TK, "(rank_at(0), rank_at(1), rank_at(5))", "(rank_at(0), rank_at(1), rank_at(4))"), base="I6-3"),
    M("I6-3-unguarded-byte", ["C09"], (TK, "        let bytes = s.as_bytes();\n", "        let bytes = s.as_bytes();\n        let _first = bytes[0];\n"), base="I6-3"),
    M("c02-row-skip-before-scan", ["C02"], (FE, "        let turn = self.current_deck[self.current_turn_index as usize];\n", "        let turn = self.current_deck[self.current_turn_index as usize];\n        if self.player_entries.iter().any(|e| e.iter().any(|(cp, _)| cp[0] == turn || cp[1] == turn)) && self.current_turn_index < self.turn_to {\n            self.current_turn_index += 1;\n            self.current_river_index = self.current_turn_index + 1;\n            self.current_player_indexes.fill(0);\n            return Some(None);\n        }\n")),
    M("c02-advance-although-room", ["C02"], (FE, "        if let Some(player_index_to_increment) = player_index_to_increment {\n            self.current_player_indexes[player_index_to_increment] += 1;", "        if let (Some(player_index_to_increment), true) = (player_index_to_increment, self.current_river_index % 2 == 0) {\n            self.current_player_indexes[player_index_to_increment] += 1;")),
    M("benign-L8-3-combo-loops", ["C05", "C09", "C12", "C10", "C06"], base="L8-3", benign=True),
    M("L8-3-pocket-from-self", ["C05", "C12"], (RP, "for &right in &SUITS[i + 1..] {", "for &right in &SUITS[i..] {"), base="L8-3"),
    M("L8-3-pocket-skip-one", ["C05", "C12", "C09"], (RP, "for &right in &SUITS[i + 1..] {", "for &right in &SUITS[i + 2..] {"), base="L8-3"),
    M("L8-3-ofsuit-unfiltered", ["C05", "C12"], (RP, "                        if high_suit != kicker_suit {\n                            card_pairs.push(CardPair::new(\n                                Card::new(high, high_suit),\n                                Card::new(kicker, kicker_suit),\n                            ));\n                        }", "                        card_pairs.push(CardPair::new(\n                            Card::new(high, high_suit),\n                            Card::new(kicker, kicker_suit),\n                        ));"), base="L8-3"),
    M("benign-L3-3-advance-helper", ["C02", "C04", "C08", "C11"], base="L3-3", benign=True),
    M("L3-3-river-bound-off", ["C04"], (FE, "if (self.current_river_index as usize) < DECK_LEN - 1 {", "if (self.current_river_index as usize) < DECK_LEN - 2 {"), base="L3-3"),
    M("benign-L6-3-lazylock-regexes", ["C05", "C06", "C09", "C10", "C17"], base="L6-3", benign=True),
    M("L6-3-weight-above-one", ["C10", "C05"], (TK, 'r"(:(0(\\.[0-9]+)?|1(\\.0+)?))?"', 'r"(:(0(\\.[0-9]+)?|1(\\.[0-9]+)?))?"'), base="L6-3"),
    M("L6-3-unanchored", ["C09"], (TK, 'concat!("^", $($fragment,)+ weight!(), "$")', 'concat!("", $($fragment,)+ weight!(), "$")'), base="L6-3"),
    M("benign-L1-2-fused-flush", ["C01", "C07", "C08"], base="L1-2", benign=True),
    M("L1-2-threshold-4", ["C01", "C07"], (MH, ".position(|&count| count >= 5)", ".position(|&count| count >= 4)"), base="L1-2"),
    M("L1-2-weight-off", ["C01", "C07"], (MH, "suit_hashes[suit_index] += 1 << (12 - u8::from(card.rank()));", "suit_hashes[suit_index] += 1 << (11 - u8::from(card.rank()) % 12);"), base="L1-2"),
    M("L1-2-wrong-key-slot", ["C01", "C07"], (MH, "        .map(|suit_index| suit_hashes[suit_index])", "        .map(|suit_index| suit_hashes[(suit_index + 1) % 4])"), base="L1-2"),
    M("L1-2-hash-by-rank-index", ["C01", "C07"], (MH, "        suit_hashes[suit_index] += 1 << (12 - u8::from(card.rank()));", "        suit_hashes[(suit_index + 1) % 4] += 1 << (12 - u8::from(card.rank()));"), base="L1-2"),
    M("benign-I1-4-fused-flush-match", ["C01", "C07", "C08"], base="I1-4", benign=True),
    M("I1-4-weight-swapped", ["C01", "C07"], (MH, "            Rank::King => 0b100000000000,\n            Rank::Queen => 0b10000000000,", "            Rank::King => 0b10000000000,\n            Rank::Queen => 0b100000000000,"), base="I1-4"),
    M("benign-L1-3-lazy-rank-walk", ["C01", "C07", "C08"], base="L1-3", benign=True),
    M("L1-3-no-decrement", ["C01", "C07"], (MH, "            remaining_card_len -= len;\n", ""), base="L1-3"),
    M("L1-3-filter-off", ["C01", "C07"], (MH, ".filter(|&(_, len)| len > 0)", ".filter(|&(_, len)| len > 1)"), base="L1-3"),
    M("L1-3-decrement-first", ["C01", "C07"], (MH, "            let offset = dp_ref(len, rank, remaining_card_len);\n", "            remaining_card_len -= len;\n            let offset = dp_ref(len, rank, remaining_card_len);\n            remaining_card_len += len;\n"), base="L1-3"),
    M("benign-G8-3-variant-projectors", ["C06", "C17", "C12", "C05"], base="G8-3", benign=True),
    M("G8-3-high-swapped-for-suited", ["C06"], (RP, "            RankPair::Suited(high, _) | RankPair::Ofsuit(high, _) => high,", "            RankPair::Suited(_, high) | RankPair::Ofsuit(high, _) => high,"), base="G8-3"),
    M("G8-3-kicker-is-high-for-pocket-ok-but-ofsuit-swapped", ["C06"], (RP, "            RankPair::Suited(_, kicker) | RankPair::Ofsuit(_, kicker) => kicker,", "            RankPair::Suited(_, kicker) | RankPair::Ofsuit(kicker, _) => kicker,"), base="G8-3"),
    M("G8-3-suffix-swapped", ["C06"], (RP, "            RankPair::Suited(_, _) => f.write_str(\"s\"),\n            RankPair::Ofsuit(_, _) => f.write_str(\"o\"),", "            RankPair::Suited(_, _) => f.write_str(\"o\"),\n            RankPair::Ofsuit(_, _) => f.write_str(\"s\"),"), base="G8-3"),
    M("benign-N7-3-decoder-find-over-all", ["C13", "C08", "C09"], base="N7-3", benign=True),
    M("N7-3-suit-find-eq-zero", ["C13"], (CD, ".find(|suit| value & suit_mask(suit) != 0)", ".find(|suit| value & suit_mask(suit) == 0)"), base="N7-3"),
    M("N7-3-rank-find-uses-suit-mask", ["C13"], (CD, ".find(|rank| value & rank_mask(rank) != 0)", ".find(|rank| value & rank_mask(rank) & SPADE_MASK != 0)"), base="N7-3"),
    M("N7-3-king-mask-dup", ["C13"], (CD, "        Rank::King => KING_MASK,\n        Rank::Queen => QUEEN_MASK,", "        Rank::King => QUEEN_MASK,\n        Rank::Queen => QUEEN_MASK,"), base="N7-3"),
    M("benign-N6-3-combos-by-selected-predicate", ["C05", "C12", "C10", "C06", "C17"], base="N6-3", benign=True),
    M("N6-3-pocket-le", ["C05", "C12"], (RP, "|left, right| left < right)", "|left, right| left <= right)"), base="N6-3"),
    M("N6-3-pocket-gt", ["C12"], (RP, "|left, right| left < right)", "|left, right| left > right)"), base="N6-3", benign=True),
    M("N6-3-suited-ne", ["C05", "C12"], (RP, "RankPair::Suited(high, kicker) => (high, kicker, |left, right| left == right)", "RankPair::Suited(high, kicker) => (high, kicker, |left, right| left != right)"), base="N6-3"),
    M("N6-3-kicker-takes-left", ["C05", "C12"], (RP, "                        Card::new(kicker, right),", "                        Card::new(kicker, left),"), base="N6-3"),
    M("N6-3-break-after-first", ["C05", "C12"], (RP, "                        Card::new(kicker, right),\n                    ));", "                        Card::new(kicker, right),\n                    ));\n                    break;"), base="N6-3"),
    M("benign-N8-4-merged-expansion-arms", ["C05", "C09", "C10", "C06", "C17"], base="N8-4", benign=True),
    M("N8-4-bottom-start-not-next", ["C05"], (TK, "                    (rank_pair, high.next().unwrap(), kicker)", "                    (rank_pair, high, kicker)"), base="N8-4"),
    M("N8-4-double-reversed", ["C05", "C09"], (TK, "                    (rank_pair, kicker, end)", "                    (rank_pair, end, kicker)"), base="N8-4"),
    M("N8-4-closure-suited-builds-ofsuit", ["C05"], (TK, "RankPair::Suited(high, _) => RankPair::Suited(high, r),", "RankPair::Suited(high, _) => RankPair::Ofsuit(high, r),"), base="N8-4"),
    M("N8-4-closure-pocket-keeps-rank", ["C05"], (TK, "RankPair::Pocket(_) => RankPair::Pocket(r),", "RankPair::Pocket(p) => RankPair::Pocket(p),"), base="N8-4"),
    M("N8-4-pocket-bottom-from-king", ["C05"], (TK, "RankPair::Pocket(rank) => (rank_pair, Rank::Ace, rank),", "RankPair::Pocket(rank) => (rank_pair, Rank::King, rank),"), base="N8-4"),
    M("leftovers-skip-covered-cells", ["C06", "C17"], (HRS, "            for kicker_rank in RankRange::inclusive(high_rank, Rank::Deuce) {\n                for high_suit in SuitRange::all() {", "            for kicker_rank in RankRange::inclusive(high_rank, Rank::Deuce) {\n                if rank_pairs.contains_key(&RankPair::Suited(high_rank, kicker_rank)) {\n                    continue;\n                }\n                for high_suit in SuitRange::all() {")),
    M("leftovers-skip-same-suit", ["C06", "C17"], (HRS, "                    for kicker_suit in SuitRange::all() {\n                        let pair = CardPair::new(", "                    for kicker_suit in SuitRange::all() {\n                        if high_suit == kicker_suit {\n                            continue;\n                        }\n                        let pair = CardPair::new(")),
    M("benign-O8-2-membership-match-in-loop", ["C05", "C12", "C10", "C06", "C17"], base="O8-2", benign=True),
    M("benign-O6-3-four-tuple-predicate", ["C05", "C12"], base="O6-3", benign=True),
    M("O8-2-pocket-le", ["C05", "C12"], (RP, "RankPair::Pocket(_) => high_suit < kicker_suit,", "RankPair::Pocket(_) => high_suit <= kicker_suit,"), base="O8-2"),
    M("O8-2-ofsuit-lt", ["C05", "C12"], (RP, "RankPair::Ofsuit(_, _) => high_suit != kicker_suit,", "RankPair::Ofsuit(_, _) => high_suit < kicker_suit,"), base="O8-2"),
    M("O8-2-variant-only-skip", ["C05", "C12"], (RP, "                if is_member {", "                if matches!(self, RankPair::Suited(_, _)) && high_suit == Suit::Club {\n                    continue;\n                }\n                if is_member {"), base="O8-2"),
    M("O8-2-kicker-gets-high-suit", ["C05", "C12"], (RP, "                        Card::new(kicker, kicker_suit),", "                        Card::new(kicker, high_suit),"), base="O8-2"),
    M("O6-3-suited-admits-all", ["C05", "C12"], (RP, "(high, kicker, 4, |left, right| left == right)", "(high, kicker, 4, |left, right| left <= right)"), base="O6-3"),
    M("benign-O3-2-collect-option-vec", ["C02", "C03", "C11", "C08"], base="O3-2", benign=True),
    M("O3-2-max", ["C03", "C11"], (SD, "            .map(|player| player.hand.power_index())\n            .min();", "            .map(|player| player.hand.power_index())\n            .max();"), base="O3-2"),
    M("O3-2-flag-ne", ["C03", "C11"], (SD, "player.win = Some(player.hand.power_index()) == strongest_index;", "player.win = Some(player.hand.power_index()) != strongest_index;"), base="O3-2"),
    M("O3-2-second-hole-card-unchecked", ["C02", "C03"], (SD, "if board.contains(&hole_cards[0]) || board.contains(&hole_cards[1]) {", "if board.contains(&hole_cards[0]) || board.contains(&hole_cards[0]) {"), base="O3-2"),
    M("O3-2-colliding-players-skipped", ["C03"], (SD, "            .map(|hole_cards| ShowdownPlayer::new(hole_cards, board))\n            .collect::<Option<Vec<_>>>()?;", "            .filter_map(|hole_cards| ShowdownPlayer::new(hole_cards, board))\n            .collect::<Vec<_>>();"), base="O3-2"),
    M("benign-O8-3-format-built-regex-struct", ["C05", "C06", "C09", "C10", "C17"], base="O8-3", benign=True),
    M("O8-3-weight-any-fraction-of-one", ["C10"], (TK, "Regex::new(&format!(r\"^{}(:(0(\\.[0-9]+)?|1(\\.0+)?))?$\", notation)).unwrap()", "Regex::new(&format!(r\"^{}(:(0(\\.[0-9]+)?|1(\\.[0-9]+)?))?$\", notation)).unwrap()"), base="O8-3"),
    M("O8-3-unanchored", ["C09", "C05"], (TK, "Regex::new(&format!(r\"^{}(:(0(\\.[0-9]+)?|1(\\.0+)?))?$\", notation)).unwrap()", "Regex::new(&format!(r\"{}(:(0(\\.[0-9]+)?|1(\\.0+)?))?$\", notation)).unwrap()"), base="O8-3"),
    M("O8-3-fields-swapped", ["C05"], (TK, "        single_pocket_pair: token(r\"[AKQJT98765432]{2}\"),\n        single_rank_pair: token(r\"[AKQJT98765432]{2}[so]\"),", "        single_pocket_pair: token(r\"[AKQJT98765432]{2}[so]\"),\n        single_rank_pair: token(r\"[AKQJT98765432]{2}\"),"), base="O8-3"),
    M("benign-O5-2-listed-rank-pairs", ["C05", "C09", "C10", "C06", "C17"], base="O5-2", benign=True),
    M("benign-L6-2-listed-rank-pairs", ["C05", "C09"], base="L6-2", benign=True),
    M("benign-I6-1-helpers-in-closure", ["C05", "C09"], base="I6-1", benign=True),
    M("O5-2-bottom-not-next", ["C05"], (TK, "rank_pair_run(high.next().unwrap(), kicker, |r| RankPair::Suited(high, r))", "rank_pair_run(high, kicker, |r| RankPair::Suited(high, r))"), base="O5-2"),
    M("O5-2-ofsuit-builds-suited", ["C05"], (TK, "rank_pair_run(kicker, end, |r| RankPair::Ofsuit(high, r))", "rank_pair_run(kicker, end, |r| RankPair::Suited(high, r))"), base="O5-2"),
    M("O5-2-helper-exclusive", ["C05"], (TK, "    RankRange::inclusive(top, bottom)\n        .into_iter()\n        .map(to_rank_pair)", "    RankRange::new(top, bottom)\n        .into_iter()\n        .map(to_rank_pair)"), base="O5-2"),
    M("O5-2-tail-weight-one", ["C05"], (TK, ".flat_map(|rank_pair| rank_pair.into_iter().map(move |cp| (cp, probability)))", ".flat_map(|rank_pair| rank_pair.into_iter().map(move |cp| (cp, 1.0)))"), base="O5-2"),
    M("O5-2-pocket-from-king", ["C05"], (TK, "RankPair::Pocket(rank) => rank_pair_run(Rank::Ace, rank, RankPair::Pocket),", "RankPair::Pocket(rank) => rank_pair_run(Rank::King, rank, RankPair::Pocket),"), base="O5-2"),
    M("I6-1-varying-high", ["C05"], (TK, "        RankPair::Suited(high, _) => RankPair::Suited(high, rank),", "        RankPair::Suited(high, _) => RankPair::Suited(rank, high),"), base="I6-1"),
    M("I6-1-weighted-half", ["C05"], (TK, "    rank_pair.into_iter().map(move |cp| (cp, probability))", "    rank_pair.into_iter().map(move |cp| (cp, probability * 0.5))"), base="I6-1"),
    M("benign-Q3-3-variant-mask-tables", ["C13", "C08", "C09"], base="Q3-3", benign=True),
    M("Q3-3-masks-swapped", ["C13"], (CD, "    (Rank::King, KING_MASK),\n    (Rank::Queen, QUEEN_MASK),", "    (Rank::King, QUEEN_MASK),\n    (Rank::Queen, KING_MASK),"), base="Q3-3"),
    M("Q3-3-suit-entry-dropped-dup", ["C13"], (CD, "    (Suit::Diamond, DIAMOND_MASK),\n    (Suit::Club, CLUB_MASK),", "    (Suit::Diamond, DIAMOND_MASK),\n    (Suit::Club, DIAMOND_MASK),"), base="Q3-3"),
    M("benign-Q4-4-flush-bit-from-deuce-code", ["C01", "C07", "C08"], base="Q4-4", benign=True),
    M("Q4-4-from-trey", ["C01", "C07", "C08"], (MH, "u8::from(Rank::Deuce) - u8::from(rank)", "u8::from(Rank::Trey) - u8::from(rank)"), base="Q4-4"),
    M("benign-Q2-3-combos-collected-per-arm-into-one-local", ["C05", "C12"], base="Q2-3", benign=True),
    M("Q2-3-ofsuit-filter-eq", ["C05", "C12"], (RP, ".filter(move |&&right| right != left)", ".filter(move |&&right| right == left)"), base="Q2-3"),
    M("Q2-3-pocket-from-i", ["C05", "C12"], (RP, "SUITS[i + 1..].iter().map(move |&right| {", "SUITS[i..].iter().map(move |&right| {"), base="Q2-3"),
    M("benign-Q5-4-listed-flatten-map", ["C05", "C09"], base="Q5-4", benign=True),
    M("Q5-4-tail-weight-one", ["C05"], (TK, "            .map(|cp| (cp, probability))\n            .collect::<Vec<(CardPair, f32)>>()", "            .map(|cp| (cp, 1.0))\n            .collect::<Vec<(CardPair, f32)>>()"), base="Q5-4"),
    M("benign-I7-3-card-from-byte-pattern", ["C13", "C09", "C08"], base="I7-3", benign=True),
    M("I7-3-accepts-longer-text", ["C13"], (CD, "            [rank, suit] => {", "            [rank, suit, ..] => {"), base="I7-3"),
    M("I7-3-suit-from-first-byte", ["C13"], (CD, "let suit = Suit::try_from(char::from(suit)).ok()?;", "let suit = Suit::try_from(char::from(rank)).ok()?;"), base="I7-3"),
    M("rank-pairs-retain-positive", ["C12", "C06", "C17"], (HRS, "            }\n        }\n\n        rank_pairs\n", "            }\n        }\n\n        rank_pairs.retain(|_, probability| *probability > 0.0);\n        rank_pairs\n")),
    M("rank-pairs-remove-aces", ["C12"], (HRS, "            }\n        }\n\n        rank_pairs\n", "            }\n        }\n\n        rank_pairs.remove(&RankPair::Pocket(Rank::Ace));\n        rank_pairs\n")),
    M("entries-through-default-hashmap", ["C15"], (FE, "            for (card_pair, probability) in player.card_pairs() {", "            let live: std::collections::HashMap<&CardPair, &f32> = player.card_pairs().iter().collect();\n            for (card_pair, probability) in live {")),
    M("benign-F3-3-computed-flush-weight", ["C01", "C07", "C08"], base="F3-3", benign=True),
    M("F3-3-unreversed", ["C01", "C07"], (MH, "1 << (12 - u8::from(card.rank()))", "1 << u8::from(card.rank())"), base="F3-3"),
    M("F3-3-off-by-one", ["C01", "C07"], (MH, "1 << (12 - u8::from(card.rank()))", "1 << (13 - u8::from(card.rank()))"), base="F3-3"),
    M("F3-3-underflow", ["C08"], (MH, "1 << (12 - u8::from(card.rank()))", "1 << (11 - u8::from(card.rank()))"), base="F3-3"),
    M("F3-3-wide-shift", ["C08"], (MH, "1 << (12 - u8::from(card.rank()))", "1 << (28 - u8::from(card.rank()))"), base="F3-3"),
    M("D5-5-shift-3", ["C13"], (CD, "ACE_MASK << (4 * u32::from(u8::from(card.0)))", "ACE_MASK << (3 * u32::from(u8::from(card.0)))"), base="D5-5"),
]
