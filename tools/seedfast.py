#!/usr/bin/env python3
"""Dev-time, parallel variant of seedrecheck.py: every kept seeded change is applied to its own scratch copy of /repo (under
/tmp, removed afterwards) and the quick checks run against it with ESPADA_REPO.  Prints which seeds the target property's check
no longer reports; does not touch seeded/<id>/meta.json (seedrecheck.py, which applies each change to /repo itself, does).
usage: tools/seedfast.py [id-substring ...] [-j N] [--all-props]"""
import glob, hashlib, json, os, shutil, subprocess, sys
from concurrent.futures import ThreadPoolExecutor
HERE = os.path.dirname(os.path.dirname(os.path.abspath(__file__)))
SEED_DIR = os.environ.get("SEED_DIR") or os.path.join(HERE, "seeded")      # SEED_DIR=/tmp/..: a round not imported yet
PROPS = ["C01", "C02", "C03", "C04", "C05", "C06", "C07", "C08", "C09", "C10", "C11", "C12", "C13", "C14", "C15", "C17"]


def one(sid, all_props):
    d = os.path.join(SEED_DIR, sid)
    meta = json.load(open(os.path.join(d, "meta.json")))
    scratch = f"/tmp/espada-seed-{sid}"
    shutil.rmtree(scratch, ignore_errors=True)
    os.makedirs(scratch)
    # the corpus patches are relative to the committed tree: take HEAD, not a working tree another tool may have patched
    subprocess.run("git -C /repo archive HEAD src examples benches Cargo.toml Cargo.lock | tar x -C " + scratch, shell=True, check=True)
    base = os.environ.get("SEED_BASE")
    if base:
        # a seed written against an already refactored tree: the behaviour-preserving patch benign/<base> goes on first
        rb = subprocess.run(["patch", "-p1", "-s", "-i", os.path.join(HERE, "benign", base, "patch.diff")], cwd=scratch, stdout=subprocess.PIPE, stderr=subprocess.STDOUT, text=True)
        if rb.returncode != 0:
            shutil.rmtree(scratch, ignore_errors=True)
            return sid, None, "base patch does not apply"
    r = subprocess.run(["patch", "-p1", "-s", "-i", os.path.join(d, "patch.diff")], cwd=scratch, stdout=subprocess.PIPE, stderr=subprocess.STDOUT, text=True)
    if r.returncode != 0:
        shutil.rmtree(scratch, ignore_errors=True)
        return sid, None, "patch does not apply"
    env = dict(os.environ, ESPADA_REPO=scratch)
    props = PROPS if all_props else [meta["property"]]
    res = {}
    for p in props:
        r = subprocess.run([os.path.join(HERE, "check"), p], env=env, stdout=subprocess.PIPE, stderr=subprocess.STDOUT, text=True, cwd=HERE)
        res[p] = r.returncode
    shutil.rmtree(scratch, ignore_errors=True)
    for f in glob.glob(os.path.join(HERE, "build", "facts", f"scratch{hashlib.sha1(scratch.encode()).hexdigest()[:8]}-*")):
        shutil.rmtree(f, ignore_errors=True)
    return sid, meta["property"], res


def main():
    args = sys.argv[1:]
    jobs = 8
    if "-j" in args:
        jobs = int(args[args.index("-j") + 1])
        del args[args.index("-j"):args.index("-j") + 2]
    all_props = "--all-props" in args
    pats = [a for a in args if not a.startswith("-")]
    ids = sorted(os.path.basename(d) for d in glob.glob(os.path.join(SEED_DIR, "*")) if os.path.exists(os.path.join(d, "patch.diff")))
    ids = [i for i in ids if not pats or any(p in i for p in pats)]
    missed = []
    with ThreadPoolExecutor(jobs) as ex:
        for sid, prop, res in ex.map(lambda i: one(i, all_props), ids):
            if prop is None:
                print(sid, res)
                missed.append(sid)
                continue
            own = res.get(prop)
            print(f"{sid:8s} {prop} rc={own}" + ("" if not all_props else "  fired=" + ",".join(p for p, rc in res.items() if rc == 1)))
            if own != 1:
                missed.append(sid)
    print("not reported by the target property's check:", missed)
    return 1 if missed else 0


if __name__ == "__main__":
    sys.exit(main())
