#!/usr/bin/env python3
"""Evaluate a behaviour-preserving refactoring produced by a sub-agent: confirm the baseline tests pass with it
(in the agent's scratch worktree), then apply it to /repo, run every quick check (all must stay silent), undo.
usage: tools/benigncheck.py <Bk> <n>"""
import json, os, re, subprocess, sys
VERIF = os.path.dirname(os.path.dirname(os.path.abspath(__file__)))
PROPS = ["C01", "C02", "C03", "C04", "C05", "C06", "C07", "C08", "C09", "C10", "C11", "C12", "C13", "C14", "C15", "C17"]


def sh(cmd, cwd=None, env=None):
    r = subprocess.run(cmd, shell=True, cwd=cwd, env=env, stdout=subprocess.PIPE, stderr=subprocess.STDOUT, text=True)
    return r.returncode, r.stdout


def main():
    bid, n = sys.argv[1], sys.argv[2]
    src = f"/tmp/benign-out/{bid}/{n}"
    patch = os.path.join(src, "patch.diff")
    if not os.path.exists(patch) or os.path.getsize(patch) == 0:
        print(f"[{bid}-{n}] no patch")
        return 1
    wt = f"/tmp/wtb-{bid}"
    tests = "skipped"
    if os.path.isdir(wt) and "--notest" not in sys.argv:
        sh("git checkout -- . && git clean -fdq -e target", cwd=wt)
        rc, out = sh(f"git apply {patch}", cwd=wt)
        if rc != 0:
            print(f"[{bid}-{n}] patch does not apply: {out[:200]}")
            return 1
        env = dict(os.environ, CARGO_TARGET_DIR=f"{wt}/target", CARGO_NET_OFFLINE="true")
        rc, out = sh("cargo test --offline --lib 2>&1 | grep 'test result'", cwd=wt, env=env)
        m = re.search(r"(\d+) passed; (\d+) failed", out)
        tests = "ok" if m and m.group(1) == "1229" and m.group(2) == "0" else "FAIL " + out.strip()[:100]
        sh("git checkout -- . && git clean -fdq -e target", cwd=wt)
    rc, out = sh("git status --short", cwd="/repo")
    if out.strip():
        print("/repo not clean")
        return 1
    rc, out = sh(f"git apply {patch}", cwd="/repo")
    if rc != 0:
        print(f"[{bid}-{n}] patch does not apply to /repo: {out[:200]}")
        return 1
    alarms = {}
    try:
        for p in PROPS:
            rc, o = sh(f"./check {p}", cwd=VERIF)
            if rc != 0:
                v = [l.strip() for l in o.splitlines() if "violated in" in l or l.startswith("BROKEN")]
                alarms[p] = v[:3]
    finally:
        sh("git checkout -- .", cwd="/repo")
        for p in alarms:
            sh(f"./check {p}", cwd=VERIF)
    meta = {}
    try:
        meta = json.load(open(os.path.join(src, "meta.json")))
    except Exception:
        pass
    print(f"[{bid}-{n}] tests={tests} alarms={sorted(alarms)}  :: {(meta.get('summary') or '')[:150]}")
    for p, v in alarms.items():
        for l in v:
            print("     ", p, l[:260])
    json.dump({"id": f"{bid}-{n}", "tests": tests, "alarms": alarms, "summary": meta.get("summary")},
              open(os.path.join(src, "result.json"), "w"), indent=1)
    return 0


if __name__ == "__main__":
    sys.exit(main())
