#!/usr/bin/env python3
"""Validate one candidate seeded change produced by a sub-agent and record it under /verif/seeded/.
usage: tools/seedcheck.py <prop> <n> [--name <id>]
 1. in the scratch worktree /tmp/wt-<prop>: apply patch, run the baseline tests, run the demo (must fail),
    revert the patch, run the demo again (must pass);
 2. apply the patch to /repo, run every quick check, undo it straight afterwards;
 3. write /verif/seeded/<id>/{patch.diff, demo.rs, meta.json}."""
import json, os, re, shutil, subprocess, sys

VERIF = os.path.dirname(os.path.dirname(os.path.abspath(__file__)))
PROPS = ["C01", "C02", "C03", "C04", "C05", "C06", "C07", "C08", "C09", "C10", "C11", "C12", "C13", "C14", "C15", "C17"]


def sh(cmd, cwd=None, env=None, timeout=1800):
    r = subprocess.run(cmd, shell=True, cwd=cwd, env=env, stdout=subprocess.PIPE, stderr=subprocess.STDOUT, text=True, timeout=timeout)
    return r.returncode, r.stdout


def main():
    prop, n = sys.argv[1], sys.argv[2]
    sid = f"{prop}-{n}"
    if "--name" in sys.argv:
        sid = sys.argv[sys.argv.index("--name") + 1]
    src_root = sys.argv[sys.argv.index("--src") + 1] if "--src" in sys.argv else "/tmp/seed-out"
    wt_prefix = sys.argv[sys.argv.index("--wt") + 1] if "--wt" in sys.argv else "/tmp/wt-"
    src = f"{src_root}/{prop}/{n}"
    wt = f"{wt_prefix}{prop}"
    meta = json.load(open(os.path.join(src, "meta.json")))
    patch = os.path.join(src, "patch.diff")
    demo = os.path.join(src, "demo.rs")
    env = dict(os.environ, CARGO_TARGET_DIR=f"{wt}/target", CARGO_NET_OFFLINE="true")
    ran = []
    # --confirm-only: stop after step 1 (touches only the scratch worktree; several may run side by side) and leave
    # <src>/confirmed.json; --confirmed: take step 1 from that file and do steps 2 and 3 (serial: they use /repo itself)
    marker = os.path.join(src, "confirmed.json")
    if "--confirmed" in sys.argv:
        c = json.load(open(marker))
        return record(sid, prop, meta, patch, demo, c["loc"], c["cmd"], c["ran"], True, True, True)
    # clean worktree
    sh("git checkout -- . && git clean -fdq -e target", cwd=wt)
    rc, out = sh(f"git apply --check {patch} && git apply {patch}", cwd=wt)
    if rc != 0:
        print("PATCH DOES NOT APPLY", out)
        return 1
    rc, out = sh("cargo test --offline --lib 2>&1 | grep 'test result'", cwd=wt, env=env)
    ran.append("cargo test --offline --lib (with change): " + out.strip())
    m = re.search(r"(\d+) passed; (\d+) failed", out)
    tests_ok = bool(m) and int(m.group(1)) >= 1229 and m.group(2) == "0"
    # demo with change
    loc = meta["demo_location"]
    dst = os.path.join(wt, loc)
    unit_in_src = loc.startswith("src/")
    if unit_in_src:
        # demo is meant to be appended to a source file
        with open(dst, "a") as fh:
            fh.write("\n" + open(demo).read())
    else:
        os.makedirs(os.path.dirname(dst), exist_ok=True)
        shutil.copy(demo, dst)
    cmd = meta["demo_cmd"]
    cmd = re.sub(r"CARGO_TARGET_DIR=\S+\s*", "", cmd)
    cmd = re.sub(r"^cd \S+ && ", "", cmd)
    rc1, out1 = sh(cmd + " 2>&1 | tail -15", cwd=wt, env=env)
    fails_with = ("test result: FAILED" in out1) or ("panicked" in out1) or ("error: test failed" in out1) or ("SIGABRT" in out1) or ("overflowed its stack" in out1) or ("could not compile" in out1) or ("error[E" in out1)
    ran.append(f"{cmd} (with change): {'FAILED' if fails_with else 'passed?'}")
    # revert only the source change
    if unit_in_src:
        sh("git checkout -- .", cwd=wt)
        with open(dst, "a") as fh:
            fh.write("\n" + open(demo).read())
    else:
        sh(f"git apply -R {patch}", cwd=wt)
    rc2, out2 = sh(cmd + " 2>&1 | tail -15", cwd=wt, env=env)
    passes_without = "test result: ok" in out2 and "FAILED" not in out2
    ran.append(f"{cmd} (without change): {'ok' if passes_without else 'NOT ok'}")
    sh("git checkout -- . && git clean -fdq -e target", cwd=wt)
    print(f"[{sid}] tests_ok={tests_ok} demo_fails_with={fails_with} demo_passes_without={passes_without}")
    if not (tests_ok and fails_with and passes_without):
        print(out1[-1500:])
        print(out2[-800:])
        print("NOT CONFIRMED")
        return 1
    if "--confirm-only" in sys.argv:
        json.dump({"loc": loc, "cmd": cmd, "ran": ran}, open(marker, "w"))
        return 0
    return record(sid, prop, meta, patch, demo, loc, cmd, ran, tests_ok, fails_with, passes_without)


def record(sid, prop, meta, patch, demo, loc, cmd, ran, tests_ok, fails_with, passes_without):
    # 2. checks against /repo with the patch applied
    rc, out = sh("git status --short", cwd="/repo")
    if out.strip():
        print("/repo is not clean, refusing")
        return 1
    rc, out = sh(f"git apply {patch}", cwd="/repo")
    fired = {}
    try:
        for p in PROPS:
            rc, o = sh(f"./check {p}", cwd=VERIF)
            viol = [l for l in o.splitlines() if "violated in" in l or l.startswith("BROKEN")]
            fired[p] = {"rc": rc, "first": viol[0].strip()[:300] if viol else ""}
    finally:
        sh("git checkout -- .", cwd="/repo")
        # restore the evidence of the unchanged tree
        for p in PROPS:
            if fired.get(p, {}).get("rc") != 0:
                sh(f"./check {p}", cwd=VERIF)
    caught = [p for p, v in fired.items() if v["rc"] == 1]
    broken = [p for p, v in fired.items() if v["rc"] not in (0, 1)]
    print(f"[{sid}] caught by: {caught}  broken: {broken}")
    for p in caught:
        print("   ", p, fired[p]["first"][:220])
    out_dir = os.path.join(VERIF, "seeded", sid)
    os.makedirs(out_dir, exist_ok=True)
    shutil.copy(patch, os.path.join(out_dir, "patch.diff"))
    shutil.copy(demo, os.path.join(out_dir, "demo.rs"))
    meta2 = {
        "id": sid, "property": prop, "summary": meta.get("summary"), "needs_to_manifest": meta.get("needs_to_manifest"),
        "demo_location": loc, "demo_cmd": cmd, "files_changed": meta.get("files_changed"),
        "confirmed": {"baseline_tests_pass_with_change": tests_ok, "demo_fails_with_change": fails_with, "demo_passes_without_change": passes_without},
        "what_was_run": ran + [f"git -C /repo apply patch.diff; ./check <each of {len(PROPS)} properties> (quick); git -C /repo checkout -- ."],
        "checks": {p: ("VIOLATION" if v["rc"] == 1 else "silent" if v["rc"] == 0 else "broken") for p, v in fired.items()},
        "caught_by": caught,
        "first_report": {p: fired[p]["first"] for p in caught},
        "author": "independent sub-agent given only the property text and a scratch worktree",
    }
    json.dump(meta2, open(os.path.join(out_dir, "meta.json"), "w"), indent=1)
    return 0


if __name__ == "__main__":
    sys.exit(main())
