import sys
wt, a, b = sys.argv[1], sys.argv[2], sys.argv[3]
pa = open(f"/tmp/props/{a}.txt").read()
pb = open(f"/tmp/props/{b}.txt").read()
print(f"""You are helping to evaluate a verification tool by writing realistic *property-breaking* source changes to a Rust library (axross/espada: a Texas Hold'em hand evaluator, hand-range notation parser/formatter, exhaustive flop equity enumerator).

Your private git worktree of the repository is {wt} (a clone; HEAD is the current main branch, which has recently been refactored). Work ONLY inside {wt}. Never touch /repo or /verif, never read anything under /verif. No network: always pass --offline to cargo (e.g. `cargo test --offline`).

Below are two semantic properties of the library. For EACH property produce TWO different source changes (so four in total), each of which:
  1. is the kind of change a real contributor could plausibly commit (a refactoring or clean-up with a slip in it, a performance optimisation that is subtly wrong, a "fix" or feature that over-reaches, an off-by-one in a rewritten loop, a table regenerated with an error, a changed comparison/ordering ...), preferably touching more than a single token, and different in kind from each other. Prefer SUBTLE changes: ones that look like an improvement a reviewer would approve (a simplification that is almost equivalent, a boundary handled slightly differently, a condition merged or hoisted, a helper reused where its contract is slightly different, a data structure swapped for one with slightly different semantics) over blunt ones (a flipped operator, a changed constant);
  2. makes the property FALSE for at least one input/schedule (say which);
  3. still compiles without errors, and the existing test suite still passes completely: run `cargo test --offline` in {wt} (all tests must pass) with the change applied;
  4. comes with a demonstration: a new integration test file `tests/seed_demo.rs` (use only the crate's public API) that FAILS with the change and PASSES on the unchanged code. Verify both.

Procedure for each change k (k = 1..4): start from a clean tree (`git -C {wt} checkout -- . && git -C {wt} clean -fdq -e target`), make the change under src/, run the full test suite (must pass), add tests/seed_demo.rs and run `cargo test --offline --test seed_demo` (must fail), save the source change only (without the demo) as `git -C {wt} diff HEAD -- src > /tmp/seedp/<PROPERTY>-{wt[-1]}<k>/patch.diff`, copy the demo test to `/tmp/seedp/<PROPERTY>-{wt[-1]}<k>/demo.rs`, then revert src (`git -C {wt} checkout -- src`) and run the demo again (must pass on unchanged code). Write `/tmp/seedp/<PROPERTY>-{wt[-1]}<k>/meta.json` with keys: property, summary (what was changed, as a commit message would describe it plus what the slip is), needs_to_manifest (which inputs expose it), files_changed, confirmed {{baseline_tests_pass_with_change, demo_fails_with_change, demo_passes_without_change}} (booleans you actually observed). (<PROPERTY> is {a} or {b}; create the directories with mkdir -p.)

Only keep a change when all three confirmations are true; otherwise try another idea. Do not weaken or edit existing tests. Never use pkill or killall (kill a process of yours by its pid only). When done, leave the worktree clean (checkout + remove tests/seed_demo.rs) and reply with a short list of the four changes.

--- {pa}
--- {pb}
""")
