#!/bin/bash
# run tools/mutgen.py --base <id> for every benign refactoring that is currently silent (mutants of the refactored lines only)
cd /verif
ids=$(python3 - <<'P'
import json,glob,os
for d in sorted(glob.glob('/verif/benign/*')):
    j=os.path.join(d,'last.json')
    if os.path.exists(j) and not json.load(open(j))['alarms']:
        b=os.path.basename(d)
        if not b.startswith('K'): print(b)
P
)
for id in $ids; do
  [ -f build/mutgen/base-$id.jsonl ] && continue
  python3 tools/mutgen.py -j 12 --base $id > build/mutgen/base-$id.log 2>&1
  tail -1 build/mutgen/base-$id.log
done
