#!/usr/bin/env python3
"""undetected test-surviving mutants of the refactored lines of each silent benign base (build/mutgen/base-*.jsonl)"""
import glob, json, os, sys
tot = sv = und = 0
for f in sorted(glob.glob('/verif/build/mutgen/base-*.jsonl')):
    bid = os.path.basename(f)[5:-6]
    rs = {}
    for l in open(f):
        r = json.loads(l)
        rs[r['id']] = r
    tot += len(rs)
    s_ = [r for r in rs.values() if r['status'] == 'survived']
    sv += len(s_)
    u_ = [r for r in s_ if not r.get('fired')]
    und += len(u_)
    for r in sorted(u_, key=lambda r: r['line']):
        print(f"[{bid}] {r['id']} {r['file']}:{r['line']} [{r['what']}]\n     - {r['old'].strip()[:120]}\n     + {r['new'].strip()[:120]}")
print(f"{tot} mutants on refactored lines, {sv} survive the tests, {und} of those unreported")
