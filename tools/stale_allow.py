#!/usr/bin/env python3
"""dev tool: audited panic allowances (rules/allow_panics.json) that no check's audit consumed on the current evidence:
slack that a new site with the same key could hide in.  Run after the checks have rewritten evidence/."""
import glob
import json
import os
import sys
V = os.path.dirname(os.path.dirname(os.path.abspath(__file__)))
allow = json.load(open(os.path.join(V, "rules/allow_panics.json")))["allow"]
unused, users = {}, {}
for f in sorted(glob.glob(os.path.join(V, "evidence/C*.json"))):
    d = json.load(open(f))
    pa = d["coverage"].get("panic_audit")
    if not pa:
        continue
    for cfg, v in pa.items():
        users.setdefault(d["property_id"], []).append(cfg)
        for u in v.get("unused_allowance", []):
            k, n = u.rsplit("=", 1)
            unused.setdefault(k, {})[(d["property_id"], cfg)] = int(n)
bad = 0
for a in allow:
    k = f"{a['owner']}|{a['kind']}|{a['detail']}"
    lo = min([unused.get(k, {}).get((p, c), 0) for p in users if a["prop"] in (p, "*") for c in users[p]] or [0])
    if lo > 0:
        print("STALE", a["prop"], k, "count", a["count"], "unused by every audit:", lo)
        bad += 1
print("stale allowances:", bad)
sys.exit(1 if bad else 0)
