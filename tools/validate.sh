#!/bin/bash
# dev-time: everything that must hold before committing a rule change
cd /verif
fail=0
for t in quick thorough; do
  for c in C01 C02 C03 C04 C05 C06 C07 C08 C09 C10 C11 C12 C13 C14 C15 C17; do
    ./check $c --tier $t > /tmp/validate.$c.$t 2>&1 || { echo "FAIL $c ($t)"; fail=1; }
  done
done
# leave quick-tier evidence in place
for c in C01 C02 C03 C04 C05 C06 C07 C08 C09 C10 C11 C12 C13 C14 C15 C17; do ./check $c > /dev/null 2>&1; done
python3 tools/mutants.py 2>&1 | grep -v " ok " | tail -3
python3 tools/seedfast.py -j 12 2>&1 | tail -1
python3 tools/benignrun.py -j 10 2>&1 | tail -1
python3 tools/mkmanifest.py > /dev/null
python3-vt - <<'P'
import json, jsonschema, glob
jsonschema.validate(json.load(open('/verif/MANIFEST.json')), json.load(open('/root/.vp/MANIFEST.schema.json')))
for f in glob.glob('/verif/evidence/*.json'):
    jsonschema.validate(json.load(open(f)), json.load(open('/root/.vp/EVIDENCE.schema.json')))
print("manifest + evidence valid")
P
exit $fail
