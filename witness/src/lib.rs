//! Type-level witnesses compiled against /repo's current source (nothing here is run:
//! `cargo +nightly test --doc` type-checks the compile_fail snippets and their compiling twins;
//! the twins are `no_run`).
//!
//! Send + Sync of the public types (C15) — instantiated in `send_sync_witness` below.
//!
//! A twin that must NOT compile shows the witness discriminates:
//! ```compile_fail,E0277
//! fn assert_send_sync<T: Send + Sync>() {}
//! assert_send_sync::<std::rc::Rc<espada::hand_range::HandRange>>();
//! ```
//!
//! C14: the tuple constructor of `CardPair` is not available outside the crate …
//! ```compile_fail,E0423
//! use espada::card::{Card, Rank, Suit};
//! use espada::hand_range::CardPair;
//! let a = Card::new(Rank::Ace, Suit::Spade);
//! let b = Card::new(Rank::King, Suit::Spade);
//! let _p = CardPair(b, a);
//! ```
//! … while its compiling twin differs only by going through the normalising constructor:
//! ```no_run
//! use espada::card::{Card, Rank, Suit};
//! use espada::hand_range::CardPair;
//! let a = Card::new(Rank::Ace, Suit::Spade);
//! let b = Card::new(Rank::King, Suit::Spade);
//! let _p = CardPair::new(b, a);
//! ```
//!
//! C14: the fields of a pair cannot be written from outside (no un-normalised mutation):
//! ```compile_fail,E0616
//! use espada::card::{Card, Rank, Suit};
//! use espada::hand_range::CardPair;
//! let a = Card::new(Rank::Ace, Suit::Spade);
//! let b = Card::new(Rank::King, Suit::Spade);
//! let mut p = CardPair::new(a, b);
//! p.0 = b;
//! ```
//!
//! C15: an evaluator does not borrow its inputs (it can outlive them):
//! ```no_run
//! use espada::evaluator::FlopExhaustiveEvaluator;
//! fn make() -> FlopExhaustiveEvaluator {
//!     let board = [None; 5];
//!     let players = vec![];
//!     FlopExhaustiveEvaluator::new(&board, &players)
//! }
//! let _ = make;
//! ```

use espada::card::{Card, Rank, Suit};
use espada::evaluator::{FlopExhaustiveEvaluator, MadeHand, Showdown};
use espada::hand_range::{CardPair, HandRange, HandRangeToken, RankPair};

fn assert_send_sync<T: Send + Sync + 'static>() {}

/// compiled (never run): every public type an evaluator is made of can be moved to and shared
/// between threads, and has no borrowed lifetime ('static).
pub fn send_sync_witness() {
    assert_send_sync::<FlopExhaustiveEvaluator>();
    assert_send_sync::<<FlopExhaustiveEvaluator as IntoIterator>::IntoIter>();
    assert_send_sync::<HandRange>();
    assert_send_sync::<Showdown>();
    assert_send_sync::<MadeHand>();
    assert_send_sync::<CardPair>();
    assert_send_sync::<Card>();
    assert_send_sync::<Rank>();
    assert_send_sync::<Suit>();
    assert_send_sync::<RankPair>();
    assert_send_sync::<HandRangeToken>();
}
